(* Proofs about Model F/G product (Mux/Sessions.v): per-session context, own
   connection for replies, non-interference between sessions, distinct ids. *)
From Coq Require Import List Bool Arith Lia FinFun.
Import ListNotations.
From Lime Require Import Mux.Sessions.

Lemma length_set_nth {A} (l : list A) i x : length (set_nth l i x) = length l.
Proof. revert i; induction l as [|y l IH]; intros [|i]; cbn; auto. Qed.

Lemma nth_error_set_nth_eq {A} (l : list A) i x y :
  nth_error l i = Some y -> nth_error (set_nth l i x) i = Some x.
Proof. revert i; induction l as [|z l IH]; intros [|i]; cbn; intros H; try discriminate; auto. Qed.

Lemma nth_error_set_nth_neq {A} (l : list A) i j x :
  i <> j -> nth_error (set_nth l i x) j = nth_error l j.
Proof.
  revert i j; induction l as [|z l IH]; intros [|i] [|j] H; cbn; auto; try congruence;
    try (apply IH; congruence).
Qed.

Lemma nth_error_Some_lt {A} (l : list A) i x : nth_error l i = Some x -> i < length l.
Proof. intros H. apply nth_error_Some. congruence. Qed.

Section Facts.
  Variable server_node : nat.
  Variable ids : nat -> nat.
  Variable reg : nat -> nat -> nat.
  Variable handler : ctxv -> nat -> list nat.

  Notation sstep := (sstep server_node ids reg handler).
  Notation srun := (srun server_node ids reg handler).
  Notation own := own.

  Definition wrs (c : ctxv) (es : list nat) : list wr :=
    flat_map (fun e => map (fun p => (c, p)) (handler c e)) es.

  Lemma wrs_cons c e es : wrs c (e :: es) = map (fun p => (c, p)) (handler c e) ++ wrs c es.
  Proof. reflexivity. Qed.

  (* the generalised statement: running [r] from any state *)
  Lemma run_gen : forall r st i s',
    nth_error (sessions (fold_left sstep r st)) i = Some s' ->
    match nth_error (sessions st) i with
    | Some s => ctx_of s' = ctx_of s /\
                s_out s' = s_out s ++ wrs (ctx_of s) (own i (length (sessions st)) (s_live s) r) /\
                s_in s' = s_in s ++ map (fun e => (ctx_of s, e)) (own i (length (sessions st)) (s_live s) r)
    | None => ctx_of s' = (ids i, server_node, reg (nth (i - length (sessions st)) (cands r) 0) i) /\
              s_out s' = wrs (ids i, server_node, reg (nth (i - length (sessions st)) (cands r) 0) i)
                             (own i (length (sessions st)) false r) /\
              s_in s' = map (fun e => ((ids i, server_node, reg (nth (i - length (sessions st)) (cands r) 0) i), e))
                            (own i (length (sessions st)) false r)
    end.
  Proof.
    induction r as [|o r IH]; intros st i s' H.
    - cbn in H. rewrite H. cbn. rewrite !app_nil_r. auto.
    - cbn [fold_left] in H. specialize (IH _ _ _ H). clear H.
      set (n := length (sessions st)) in *.
      destruct o as [c | j e | j].
      + (* Connect *)
        cbn [sstep sessions] in IH. rewrite app_length in IH. cbn [length] in IH.
        replace (length (sessions st) + 1) with (S n) in IH by (unfold n; lia).
        cbn [own cands].
        destruct (nth_error (sessions st) i) as [s|] eqn:E.
        * pose proof (nth_error_Some_lt _ _ _ E) as Hlt. fold n in Hlt.
          rewrite nth_error_app1 in IH by exact Hlt. rewrite E in IH.
          destruct (Nat.eqb_spec n i); [lia|]. exact IH.
        * apply nth_error_None in E. fold n in E.
          destruct (Nat.eq_dec i n) as [->|Hne].
          -- rewrite nth_error_app2 in IH by (unfold n; lia). fold n in IH. rewrite Nat.sub_diag in IH.
             cbn [nth_error ctx_of s_sid s_local s_remote s_out s_in s_live app] in IH.
             rewrite Nat.sub_diag. cbn [nth]. rewrite Nat.eqb_refl. exact IH.
          -- rewrite nth_error_app2 in IH by (unfold n; lia). fold n in IH.
             destruct (i - n) as [|k] eqn:Ek; [lia|].
             cbn [nth_error] in IH.
             assert (Hnone : nth_error (@nil session) k = None) by (destruct k; reflexivity).
             rewrite Hnone in IH.
             replace (i - S n) with k in IH by lia. cbn [nth].
             destruct (Nat.eqb_spec n i); [lia|]. exact IH.
      + (* Recv *)
        cbn [sstep] in IH. cbn [own cands].
        destruct (nth_error (sessions st) j) as [sj|] eqn:Ej.
        * pose proof (nth_error_Some_lt _ _ _ Ej) as Hj. fold n in Hj.
          destruct (s_live sj) eqn:Lj.
          -- cbn [sessions] in IH. rewrite length_set_nth in IH. fold n in IH.
             destruct (Nat.eq_dec j i) as [->|Hne].
             ++ rewrite (nth_error_set_nth_eq _ _ _ _ Ej) in IH. rewrite Ej.
                cbn [ctx_of s_sid s_local s_remote s_out s_in s_live] in IH.
                rewrite Lj, Nat.eqb_refl. cbn [andb].
                destruct (Nat.ltb_spec i n); [|lia].
                destruct IH as [IH1 [IH2 IH3]]. split; [exact IH1|]. split.
                ** rewrite IH2, wrs_cons, app_assoc. reflexivity.
                ** rewrite IH3. cbn [map]. rewrite <- app_assoc. reflexivity.
             ++ rewrite (nth_error_set_nth_neq _ _ _ _ Hne) in IH.
                destruct (Nat.eqb_spec j i); [congruence|]. cbn [andb].
                destruct (nth_error (sessions st) i); exact IH.
          -- destruct (Nat.eqb_spec j i) as [->|Hne]; cbn [andb].
             ++ rewrite Ej in *. rewrite Lj in *. cbn [andb]. exact IH.
             ++ destruct (nth_error (sessions st) i); exact IH.
        * apply nth_error_None in Ej. fold n in Ej.
          destruct (Nat.eqb_spec j i) as [->|Hne]; cbn [andb].
          -- assert (E : nth_error (sessions st) i = None) by (apply nth_error_None; unfold n in Ej; lia).
             rewrite E in *. cbn [andb]. exact IH.
          -- destruct (nth_error (sessions st) i); exact IH.
      + (* Finish *)
        cbn [sstep] in IH. cbn [own cands].
        destruct (nth_error (sessions st) j) as [sj|] eqn:Ej.
        * pose proof (nth_error_Some_lt _ _ _ Ej) as Hj. fold n in Hj.
          cbn [sessions] in IH. rewrite length_set_nth in IH. fold n in IH.
          destruct (Nat.eq_dec j i) as [->|Hne].
          -- rewrite (nth_error_set_nth_eq _ _ _ _ Ej) in IH. rewrite Ej.
             cbn [ctx_of s_sid s_local s_remote s_out s_in s_live] in IH.
             rewrite Nat.eqb_refl. destruct (Nat.ltb_spec i n); [|lia]. cbn [andb]. exact IH.
          -- rewrite (nth_error_set_nth_neq _ _ _ _ Hne) in IH.
             destruct (Nat.eqb_spec j i); [congruence|]. cbn [andb].
             destruct (nth_error (sessions st) i); exact IH.
        * apply nth_error_None in Ej. fold n in Ej.
          destruct (Nat.eqb_spec j i) as [->|Hne]; cbn [andb].
          -- destruct (Nat.ltb_spec i n); [lia|].
             destruct (nth_error (sessions st) i); exact IH.
          -- destruct (nth_error (sessions st) i); exact IH.
  Qed.

  (* Every session of every reachable state: its context values are the id
     drawn for it, the server's node and the node Register assigned to its own
     candidate; what was written to its connection is exactly what the
     handlers produced for the envelopes that arrived on it, in order, computed
     from its own operations only. *)
  Theorem session_spec : forall ops i s,
    nth_error (sessions (srun ops)) i = Some s ->
    ctx_of s = spec_ctx server_node ids reg ops i /\
    s_out s = spec_out server_node ids reg handler ops i /\
    s_in s = spec_in server_node ids reg ops i.
  Proof.
    intros ops i s H. unfold srun in H. apply run_gen in H. cbn [sinit sessions length] in H.
    destruct i; cbn [nth_error] in H; rewrite Nat.sub_0_r in H; exact H.
  Qed.

  (* the handler log: every invocation carries the context of the session the envelope arrived on *)
  Definition log_ok (st : sst) : Prop :=
    forall j c e, In (j, c, e) (hlog st) -> exists s, nth_error (sessions st) j = Some s /\ ctx_of s = c.

  Lemma log_ok_step st o : log_ok st -> log_ok (sstep st o).
  Proof.
    intros H j c e Hin. destruct o as [cand | k e' | k]; cbn [sstep] in *.
    - cbn [hlog sessions] in *. destruct (H _ _ _ Hin) as [s [Hs Hc]]. exists s. split; auto.
      rewrite nth_error_app1; auto. eapply nth_error_Some_lt; eauto.
    - destruct (nth_error (sessions st) k) as [sk|] eqn:Ek; [|exact (H _ _ _ Hin)].
      destruct (s_live sk); [|exact (H _ _ _ Hin)]. cbn [hlog sessions] in *.
      apply in_app_or in Hin. destruct Hin as [Hin|[Heq|[]]].
      + destruct (H _ _ _ Hin) as [s [Hs Hc]].
        destruct (Nat.eq_dec k j) as [->|Hne].
        * rewrite (nth_error_set_nth_eq _ _ _ _ Ek). eexists; split; [reflexivity|].
          rewrite Ek in Hs. inversion Hs; subst. reflexivity.
        * rewrite (nth_error_set_nth_neq _ _ _ _ Hne). eauto.
      + inversion Heq; subst. rewrite (nth_error_set_nth_eq _ _ _ _ Ek). eexists; split; reflexivity.
    - destruct (nth_error (sessions st) k) as [sk|] eqn:Ek; [|exact (H _ _ _ Hin)].
      cbn [hlog sessions] in *. destruct (H _ _ _ Hin) as [s [Hs Hc]].
      destruct (Nat.eq_dec k j) as [->|Hne].
      + rewrite (nth_error_set_nth_eq _ _ _ _ Ek). eexists; split; [reflexivity|].
        rewrite Ek in Hs. inversion Hs; subst. reflexivity.
      + rewrite (nth_error_set_nth_neq _ _ _ _ Hne). eauto.
  Qed.

  Lemma log_ok_run r st : log_ok st -> log_ok (fold_left sstep r st).
  Proof. revert st; induction r as [|o r IH]; intros st H; cbn; auto. apply IH, log_ok_step, H. Qed.

  Theorem handler_ctx_spec : forall ops j c e,
    In (j, c, e) (hlog (srun ops)) -> c = spec_ctx server_node ids reg ops j.
  Proof.
    intros ops j c e Hin.
    assert (L : log_ok (srun ops)) by (apply log_ok_run; intros ? ? ? []).
    destruct (L _ _ _ Hin) as [s [Hs Hc]]. apply session_spec in Hs. destruct Hs as [Hs _]. congruence.
  Qed.

  (* non-interference: what session i's connection carries depends only on the
     projection of the history on session i *)
  Theorem non_interference : forall ops ops' i s s',
    nth_error (sessions (srun ops)) i = Some s ->
    nth_error (sessions (srun ops')) i = Some s' ->
    nth i (cands ops) 0 = nth i (cands ops') 0 ->
    own i 0 false ops = own i 0 false ops' ->
    ctx_of s = ctx_of s' /\ s_out s = s_out s' /\ s_in s = s_in s'.
  Proof.
    intros ops ops' i s s' H H' Hc Ho.
    apply session_spec in H. apply session_spec in H'.
    destruct H as [H1 [H2 H3]], H' as [H1' [H2' H3']].
    unfold spec_out, spec_in, spec_ctx in *. rewrite Hc, Ho in *. repeat split; congruence.
  Qed.

  (* a step aimed at another session leaves a session's component untouched (frame) *)
  Theorem frame_step : forall st o i,
    (match o with Connect _ => i < length (sessions st) | Recv j _ | Finish j => j <> i end) ->
    nth_error (sessions (sstep st o)) i = nth_error (sessions st) i.
  Proof.
    intros st o i H. destruct o as [c | j e | j]; cbn [sstep].
    - cbn [sessions]. apply nth_error_app1, H.
    - destruct (nth_error (sessions st) j); [|reflexivity]. destruct (s_live s); [|reflexivity].
      cbn [sessions]. apply nth_error_set_nth_neq, H.
    - destruct (nth_error (sessions st) j); [|reflexivity].
      cbn [sessions]. apply nth_error_set_nth_neq, H.
  Qed.

  (* session ids: the i-th session holds the i-th id drawn *)
  Lemma sids_gen r st :
    map s_sid (sessions st) = map ids (seq 0 (length (sessions st))) ->
    map s_sid (sessions (fold_left sstep r st)) = map ids (seq 0 (length (sessions (fold_left sstep r st)))).
  Proof.
    revert st; induction r as [|o r IH]; intros st H; cbn [fold_left]; auto.
    apply IH. destruct o as [c | j e | j]; cbn [sstep].
    - cbn [sessions]. rewrite map_app, app_length, H. cbn [length map s_sid].
      rewrite Nat.add_1_r, seq_S, map_app. reflexivity.
    - destruct (nth_error (sessions st) j) as [sj|] eqn:Ej; [|exact H].
      destruct (s_live sj); [|exact H]. cbn [sessions]. rewrite length_set_nth, <- H.
      clear H IH. revert j Ej. generalize (sessions st) as l.
      induction l as [|x l IHl]; intros [|j] Ej; cbn in *; try discriminate; auto.
      + inversion Ej; subst. reflexivity.
      + f_equal. eapply IHl; eauto.
    - destruct (nth_error (sessions st) j) as [sj|] eqn:Ej; [|exact H].
      cbn [sessions]. rewrite length_set_nth, <- H.
      clear H IH. revert j Ej. generalize (sessions st) as l.
      induction l as [|x l IHl]; intros [|j] Ej; cbn in *; try discriminate; auto.
      + inversion Ej; subst. reflexivity.
      + f_equal. eapply IHl; eauto.
  Qed.

  Theorem sids_distinct : forall ops,
    (forall a b, ids a = ids b -> a = b) ->
    NoDup (map s_sid (sessions (srun ops))).
  Proof.
    intros ops Hinj. unfold srun. rewrite sids_gen by reflexivity.
    apply Injective_map_NoDup; [exact Hinj | apply seq_NoDup].
  Qed.
End Facts.
