(* Model F/G product — many sessions on one server (server.go consumeTransports /
   handleChannel, handler.go listen, context.go sessionContext).

   Every accepted transport gets a fresh id from the id source and its own
   channel; the Register callback assigns the remote node; for each dispatch
   the listen loop builds the context from the channel the envelope arrived on
   and hands that same channel to the handler as the Sender.  The mux itself
   holds no per-session state.  Definitions only; proofs in SessionsFacts.v. *)
From Coq Require Import List Bool Arith.
Import ListNotations.

(* what a handler can read out of its context: session id, local node, remote node *)
Definition ctxv := (nat * nat * nat)%type.
(* something written to a session's connection: the context values the writing
   handler saw, and a payload *)
Definition wr := (ctxv * nat)%type.

Record session := {
  s_sid : nat;          (* channel.sessionID, also announced to the client in the session envelopes *)
  s_local : nat;        (* channel.localNode = the server's node *)
  s_remote : nat;       (* channel.remoteNode = what Register returned, announced as "to" *)
  s_out : list wr;      (* what was written to this session's connection by handlers *)
  s_in : list wr;       (* handler invocations for envelopes that arrived on this session: context seen, envelope *)
  s_live : bool         (* established and served *)
}.

Inductive sop :=
| Connect (cand : nat)        (* a client connects and establishes a session, asking for node [cand] *)
| Recv (i : nat) (e : nat)    (* envelope [e] arrives on the [i]-th session *)
| Finish (i : nat).           (* the [i]-th session ends *)

(* one handler invocation: the session the envelope arrived on, the context
   values handed to the handler, the envelope *)
Definition hinv := (nat * ctxv * nat)%type.

Record sst := { sessions : list session; hlog : list hinv }.

Fixpoint set_nth {A} (l : list A) (i : nat) (x : A) : list A :=
  match l, i with
  | [], _ => []
  | _ :: r, O => x :: r
  | y :: r, S i' => y :: set_nth r i' x
  end.

Section Srv.
  Variable server_node : nat.
  Variable ids : nat -> nat.            (* uuid.NewString: the n-th id drawn by consumeTransports *)
  Variable reg : nat -> nat -> nat.     (* Register: candidate node, n-th session -> assigned node *)
  (* the registered handlers, arbitrary: from what they read in the context and
     the envelope to the payloads they send through the Sender they were given *)
  Variable handler : ctxv -> nat -> list nat.

  Definition ctx_of (s : session) : ctxv := (s_sid s, s_local s, s_remote s).

  Definition sstep (st : sst) (o : sop) : sst :=
    match o with
    | Connect cand =>
        let n := length (sessions st) in
        {| sessions := sessions st ++
             [{| s_sid := ids n; s_local := server_node; s_remote := reg cand n; s_out := []; s_in := []; s_live := true |}];
           hlog := hlog st |}
    | Recv i e =>
        match nth_error (sessions st) i with
        | Some s =>
            if s_live s then
              let c := ctx_of s in
              let s' := {| s_sid := s_sid s; s_local := s_local s; s_remote := s_remote s;
                           s_out := s_out s ++ map (fun p => (c, p)) (handler c e); s_in := s_in s ++ [(c, e)]; s_live := true |} in
              {| sessions := set_nth (sessions st) i s'; hlog := hlog st ++ [(i, c, e)] |}
            else st
        | None => st
        end
    | Finish i =>
        match nth_error (sessions st) i with
        | Some s =>
            {| sessions := set_nth (sessions st) i
                 {| s_sid := s_sid s; s_local := s_local s; s_remote := s_remote s; s_out := s_out s; s_in := s_in s; s_live := false |};
               hlog := hlog st |}
        | None => st
        end
    end.

  Definition sinit : sst := {| sessions := []; hlog := [] |}.
  Definition srun (ops : list sop) : sst := fold_left sstep ops sinit.

  (* ---- specification side: what one session sees, computed from its own operations only ---- *)

  (* candidates of the Connect operations, in order: the i-th is session i's *)
  Fixpoint cands (ops : list sop) : list nat :=
    match ops with
    | [] => []
    | Connect c :: r => c :: cands r
    | _ :: r => cands r
    end.

  (* the envelopes that arrive on session [i] while it is served, given that
     [n] sessions exist before [ops] and whether session i is live *)
  Fixpoint own (i : nat) (n : nat) (live : bool) (ops : list sop) : list nat :=
    match ops with
    | [] => []
    | Connect _ :: r => own i (S n) (if Nat.eqb n i then true else live) r
    | Recv j e :: r => if Nat.eqb j i && live && Nat.ltb i n then e :: own i n live r else own i n live r
    | Finish j :: r => own i n (if Nat.eqb j i && Nat.ltb i n then false else live) r
    end.

  Definition spec_ctx (ops : list sop) (i : nat) : ctxv := (ids i, server_node, reg (nth i (cands ops) 0) i).
  Definition spec_out (ops : list sop) (i : nat) : list wr :=
    let c := spec_ctx ops i in flat_map (fun e => map (fun p => (c, p)) (handler c e)) (own i 0 false ops).
  Definition spec_in (ops : list sop) (i : nat) : list wr :=
    let c := spec_ctx ops i in map (fun e => (c, e)) (own i 0 false ops).
End Srv.
