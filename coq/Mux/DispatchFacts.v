(* Proofs about Model F (Mux/Dispatch.v). *)
From Coq Require Import List Bool Arith Lia.
Import ListNotations.
From Lime Require Import Mux.Dispatch.

Section Facts.
  Variable E : Type.
  Variable kind_of : E -> kind.
  Notation handler := (handler E).
  Notation mux := (mux E).

  (* ---- first_match is "the least index whose handler matches" ---- *)
  Lemma first_match_from_some (hs : list handler) e : forall i j,
    first_match_from i hs e = Some j ->
    exists n h, j = i + n /\ nth_error hs n = Some h /\ matches h e = true /\
      (forall n' h', n' < n -> nth_error hs n' = Some h' -> matches h' e = false).
  Proof.
    induction hs as [|h hs IH]; intros i j H; cbn in H; [discriminate|].
    destruct (matches h e) eqn:Hm.
    - inversion H; subst. exists 0, h. split; [lia|]. split; [reflexivity|]. split; [exact Hm|].
      intros n' h' Hlt; lia.
    - apply IH in H. destruct H as (n & h0 & -> & Hn & Hm0 & Hlt).
      exists (S n), h0. split; [lia|]. split; [exact Hn|]. split; [exact Hm0|].
      intros [|n'] h' Hl Hnth; cbn in Hnth.
      + inversion Hnth; subst; auto.
      + eapply Hlt; eauto; lia.
  Qed.

  Lemma first_match_from_none (hs : list handler) e : forall i,
    first_match_from i hs e = None -> forall h, In h hs -> matches h e = false.
  Proof.
    induction hs as [|h hs IH]; intros i H h0 Hin; [inversion Hin|].
    cbn in H. destruct (matches h e) eqn:Hm; [discriminate|].
    destruct Hin as [<-|Hin]; auto. eapply IH; eauto.
  Qed.

  Lemma dispatch_from_first (hs : list handler) e : forall i,
    dispatch_from i hs e =
      match first_match_from i hs e with
      | Some j => ([j], match nth_error hs (j - i) with Some h => h_ok h e | None => true end)
      | None => ([], true)
      end.
  Proof.
    induction hs as [|h hs IH]; intros i; cbn; auto.
    destruct (matches h e) eqn:Hm.
    - replace (i - i) with 0 by lia. reflexivity.
    - rewrite IH. destruct (first_match_from (S i) hs e) as [j|] eqn:Hf; auto.
      apply first_match_from_some in Hf. destruct Hf as (n & h0 & -> & _).
      replace (S i + n - i) with (S n) by lia. replace (S i + n - S i) with n by lia. reflexivity.
  Qed.

  (* The full statement about one inbound envelope. *)
  Theorem dispatch_spec (hs : list handler) e :
    match first_match hs e with
    | Some i => exists h, nth_error hs i = Some h /\ matches h e = true /\
                  (forall j h', j < i -> nth_error hs j = Some h' -> matches h' e = false) /\
                  dispatch hs e = ([i], h_ok h e)
    | None => (forall h, In h hs -> matches h e = false) /\ dispatch hs e = ([], true)
    end.
  Proof.
    unfold first_match, dispatch. rewrite dispatch_from_first.
    destruct (first_match_from 0 hs e) as [i|] eqn:Hf.
    - apply first_match_from_some in Hf. destruct Hf as (n & h & Hi & Hn & Hm & Hlt).
      cbn in Hi; subst i. exists h. split; [exact Hn|]. split; [exact Hm|]. split; [exact Hlt|].
      replace (n - 0) with n by lia. rewrite Hn. reflexivity.
    - split; auto. eapply first_match_from_none; eauto.
  Qed.

  Corollary dispatch_at_most_one (hs : list handler) e : length (fst (dispatch hs e)) <= 1.
  Proof.
    pose proof (dispatch_spec hs e) as H. destruct (first_match hs e).
    - destruct H as (h & _ & _ & _ & ->). cbn; lia.
    - destruct H as (_ & ->). cbn; lia.
  Qed.

  Corollary dispatch_nil_pred_catches (hs : list handler) e i h :
    nth_error hs i = Some h -> h_pred h = None ->
    exists j, j <= i /\ fst (dispatch hs e) = [j].
  Proof.
    intros Hn Hp. pose proof (dispatch_spec hs e) as H.
    destruct (first_match hs e) as [j|].
    - destruct H as (h' & Hj & Hm & Hlt & ->). exists j. split; auto.
      destruct (le_lt_dec j i); auto. specialize (Hlt i h l Hn).
      unfold matches in Hlt. rewrite Hp in Hlt. discriminate.
    - destruct H as (Hall & _). apply nth_error_In in Hn. apply Hall in Hn.
      unfold matches in Hn. rewrite Hp in Hn. discriminate.
  Qed.

  (* ---- the listen loop ---- *)
  Definition env_ok (m : mux) (e : E) : bool := snd (dispatch (table m (kind_of e)) e).
  Definition env_log (m : mux) (e : E) : list (inv E) :=
    map (fun i => (kind_of e, i, e)) (fst (dispatch (table m (kind_of e)) e)).
  (* the envelopes the loop gets to see: everything up to and including the
     first one whose handler returns an error *)
  Fixpoint upto_err (m : mux) (es : list E) : list E :=
    match es with
    | [] => []
    | e :: es' => if env_ok m e then e :: upto_err m es' else [e]
    end.

  Theorem listen_log m es : fst (listen kind_of m es) = flat_map (env_log m) (upto_err m es).
  Proof.
    induction es as [|e es IH]; cbn; auto.
    unfold env_ok, env_log.
    destruct (dispatch (table m (kind_of e)) e) as [is ok] eqn:Hd; cbn.
    destruct ok.
    - destruct (listen kind_of m es) as [l r]; cbn in *. rewrite IH, Hd. reflexivity.
    - cbn. rewrite Hd, app_nil_r. reflexivity.
  Qed.

  Theorem listen_running m es : snd (listen kind_of m es) = forallb (env_ok m) es.
  Proof.
    induction es as [|e es IH]; cbn; auto.
    unfold env_ok.
    destruct (dispatch (table m (kind_of e)) e) as [is ok] eqn:Hd; cbn.
    destruct ok; cbn; auto.
    destruct (listen kind_of m es) as [l r]; cbn in *. auto.
  Qed.

  Lemma upto_err_prefix m es : exists rest, es = upto_err m es ++ rest.
  Proof.
    induction es as [|e es [rest IH]]; cbn; [exists []; reflexivity|].
    destruct (env_ok m e).
    - exists rest. cbn. f_equal. exact IH.
    - exists es. reflexivity.
  Qed.

  Lemma upto_err_all m es : forallb (env_ok m) es = true -> upto_err m es = es.
  Proof.
    induction es as [|e es IH]; cbn; auto. intros H. apply andb_prop in H. destruct H as [H1 H2].
    rewrite H1. f_equal. auto.
  Qed.

  (* after an error nothing further is dispatched: every envelope in the
     dispatched prefix except the last one was handled without error *)
  Lemma upto_err_ok m es : forall e, In e (removelast (upto_err m es)) -> env_ok m e = true.
  Proof.
    induction es as [|e es IH]; cbn; [tauto|]. intros e0.
    destruct (env_ok m e) eqn:Hok; cbn; [|tauto].
    destruct (upto_err m es) eqn:Hu; cbn; [tauto|].
    intros [<-|H]; auto.
  Qed.

  (* every invocation is of a handler of the envelope's own kind, with a valid
     index in that kind's table, and carries the envelope as received *)
  Theorem listen_inv_kind m es : forall k i e,
    In (k, i, e) (fst (listen kind_of m es)) ->
    k = kind_of e /\ In e es /\ first_match (table m k) e = Some i.
  Proof.
    intros k i e H. rewrite listen_log in H. apply in_flat_map in H.
    destruct H as (e0 & Hin & H). unfold env_log in H. apply in_map_iff in H.
    destruct H as (j & Heq & Hj). inversion Heq; subst; clear Heq.
    split; auto. split.
    - destruct (upto_err_prefix m es) as [rest Hr]. rewrite Hr. apply in_or_app; auto.
    - pose proof (dispatch_spec (table m (kind_of e)) e) as Hs.
      destruct (first_match (table m (kind_of e)) e) as [i0|].
      + destruct Hs as (h & _ & _ & _ & Hd). rewrite Hd in Hj. cbn in Hj. destruct Hj as [->|[]]. reflexivity.
      + destruct Hs as (_ & Hd). rewrite Hd in Hj. inversion Hj.
  Qed.

  Theorem serve_finishes_iff_error m es :
    snd (serve kind_of m es) = negb (forallb (env_ok m) es).
  Proof.
    unfold serve. pose proof (listen_running m es) as H.
    destruct (listen kind_of m es) as [l r]; cbn in *. rewrite H. reflexivity.
  Qed.

  Theorem serve_log m es : fst (serve kind_of m es) = flat_map (env_log m) (upto_err m es).
  Proof.
    unfold serve. pose proof (listen_log m es) as H.
    destruct (listen kind_of m es) as [l r]; cbn in *. exact H.
  Qed.
End Facts.
