(* Model F — EnvelopeMux (handler.go): handler tables, first-match dispatch,
   the listen loop's reaction to handler errors, and what Server.handleChannel
   does when the loop ends.  Definitions only; proofs are in DispatchFacts.v. *)
From Coq Require Import List Bool Arith.
Import ListNotations.

Inductive kind := KMsg | KNot | KReq | KResp.

Definition kind_eqb (a b : kind) : bool :=
  match a, b with
  | KMsg, KMsg | KNot, KNot | KReq, KReq | KResp, KResp => true
  | _, _ => false
  end.

Section Mux.
  (* E: the envelopes (of all kinds); the kind is given by [kind_of]. *)
  Variable E : Type.

  (* A registered handler: an optional predicate (None = nil predicate, which
     Match treats as "accept") and the handler function's outcome
     (true = returned nil, false = returned an error). *)
  Record handler := { h_pred : option (E -> bool); h_ok : E -> bool }.

  Definition matches (h : handler) (e : E) : bool :=
    match h_pred h with None => true | Some p => p e end.

  (* handleMessage & co.: walk the table in registration order, skip handlers
     whose Match is false, invoke the first that matches, then break.
     Result: the invocations (index in the table) and whether the loop may
     continue (false = the handler returned an error). *)
  Fixpoint dispatch_from (i : nat) (hs : list handler) (e : E) : list nat * bool :=
    match hs with
    | [] => ([], true)
    | h :: hs' =>
        if matches h e then ([i], h_ok h e)
        else dispatch_from (S i) hs' e
    end.
  Definition dispatch (hs : list handler) (e : E) : list nat * bool := dispatch_from 0 hs e.

  (* specification side: index of the first matching handler *)
  Fixpoint first_match_from (i : nat) (hs : list handler) (e : E) : option nat :=
    match hs with
    | [] => None
    | h :: hs' => if matches h e then Some i else first_match_from (S i) hs' e
    end.
  Definition first_match hs e := first_match_from 0 hs e.

  Record mux := { m_msg : list handler; m_not : list handler;
                  m_req : list handler; m_resp : list handler }.

  Definition table (m : mux) (k : kind) : list handler :=
    match k with KMsg => m_msg m | KNot => m_not m | KReq => m_req m | KResp => m_resp m end.

  Variable kind_of : E -> kind.

  (* one invocation: table kind, handler index, the envelope handed over *)
  Definition inv := (kind * nat * E)%type.

  (* listen: envelopes are taken one at a time (in the order [es] in which the
     loop's select hands them over); the loop ends with an error as soon as a
     handler returns one.  Result: invocation log and "loop still running". *)
  Fixpoint listen (m : mux) (es : list E) : list inv * bool :=
    match es with
    | [] => ([], true)
    | e :: es' =>
        let k := kind_of e in
        let (is, ok) := dispatch (table m k) e in
        let here := map (fun i => (k, i, e)) is in
        if ok then let (l, r) := listen m es' in (here ++ l, r)
        else (here, false)
    end.

  (* Server.handleChannel after establishment: run listen; when it returns
     (handler error) the deferred function finishes the still-established
     session, i.e. a finished session envelope is sent. *)
  Definition serve (m : mux) (es : list E) : list inv * bool (* finished sent *) :=
    let (l, running) := listen m es in (l, negb running).
End Mux.

Arguments h_pred {E} _.
Arguments h_ok {E} _.
Arguments Build_handler {E} _ _.
Arguments matches {E} _ _.
Arguments dispatch_from {E} _ _ _.
Arguments dispatch {E} _ _.
Arguments first_match_from {E} _ _ _.
Arguments first_match {E} _ _.
Arguments Build_mux {E} _ _ _ _.
Arguments table {E} _ _.
Arguments listen {E} _ _ _.
Arguments serve {E} _ _ _.
