(* Model D, send gate: channel.sendToTransport / ensureEstablished and
   ProcessCommand's send (channel.go): data envelopes pass only while the
   session is established and the transport connected. *)
From Coq Require Import List Bool Arith.
Import ListNotations.
From Lime Require Import Hs.Types.

Inductive sendop := OpMessage | OpNotification | OpRequestCommand | OpResponseCommand | OpProcessCommand.

(* result: (returned nil?, number of envelopes written to the wire) *)
Definition gate (st : state) (connected : bool) (op : sendop) : bool * nat :=
  if connected && state_eqb st SEstablished then (true, 1) else (false, 0).

(* C06, send side *)
Theorem gate_closed : forall st connected op,
  st <> SEstablished \/ connected = false -> gate st connected op = (false, 0).
Proof.
  intros st connected op [H|H]; unfold gate.
  - destruct (state_eqb st SEstablished) eqn:E; [apply state_eqb_eq in E; contradiction|].
    rewrite andb_false_r. reflexivity.
  - rewrite H. reflexivity.
Qed.
Theorem gate_open : forall op, gate SEstablished true op = (true, 1).
Proof. reflexivity. Qed.
