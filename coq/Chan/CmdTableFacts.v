(* Model D, pending-command table: the repaired code (fixed = true) keeps every
   registered request's table entry, completes a request only with a response
   bearing its own id, leaves no entry behind, and never loses or duplicates a
   response taken from the wire.  One inductive invariant, preserved by every
   label, lifted over schedules. *)
From Coq Require Import List Arith Bool Permutation Lia.
Import ListNotations.
From Lime Require Import Chan.CmdTable.

(* responses sitting in reply slots *)
Definition in_slots (s : st) : list resp :=
  flat_map (fun q => match q_slot q with Some x => [x] | None => [] end) (reqs s).
Definition in_flight (s : st) : list resp := match matcher s with M1 _ x => [x] | M0 => [] end.

Definition slotl (q : req) : list resp := match q_slot q with Some x => [x] | None => [] end.

Lemma in_slots_eq : forall s, in_slots s = flat_map slotl (reqs s).
Proof. reflexivity. Qed.

Ltac splits := repeat match goal with |- _ /\ _ => split end.

(* ---- upd / get ---- *)
Lemma get_upd : forall l i f j,
  get (upd l i f) j = if Nat.eqb i j then option_map f (get l i) else get l j.
Proof.
  unfold get. induction l as [|a l IH]; intros i f j.
  - simpl. destruct (Nat.eqb i j); destruct i; destruct j; reflexivity.
  - destruct i as [|i]; destruct j as [|j]; simpl; try reflexivity.
    apply IH.
Qed.

Lemma get_upd_eq : forall l r f q, get l r = Some q -> get (upd l r f) r = Some (f q).
Proof. intros l r f q H. rewrite get_upd, Nat.eqb_refl, H. reflexivity. Qed.

Lemma get_upd_neq : forall l r f r', r' <> r -> get (upd l r f) r' = get l r'.
Proof.
  intros l r f r' H. rewrite get_upd.
  destruct (Nat.eqb_spec r r') as [E|E]; [congruence|reflexivity].
Qed.

Lemma get_upd_inv : forall l r f r' q', get (upd l r f) r' = Some q' ->
  (r' = r /\ exists q, get l r = Some q /\ q' = f q) \/ (r' <> r /\ get l r' = Some q').
Proof.
  intros l r f r' q' H. rewrite get_upd in H.
  destruct (Nat.eqb_spec r r') as [E|E].
  - subst r'. left. split; [reflexivity|].
    destruct (get l r) as [q|]; simpl in H; [|discriminate].
    exists q. split; [reflexivity|congruence].
  - right. split; [congruence|exact H].
Qed.

(* ---- lookup / remove ---- *)
Lemma lookup_In : forall k t v, lookup k t = Some v -> In (k, v) t.
Proof.
  induction t as [|[k' w] t IH]; simpl; intros v H; [discriminate|].
  destruct (Nat.eqb_spec k k') as [E|E].
  - injection H as ->. subst. left; reflexivity.
  - right; auto.
Qed.

Lemma in_remove_key : forall k t i r, In (i, r) (remove_key k t) -> In (i, r) t /\ i <> k.
Proof.
  unfold remove_key. intros k t i r H. apply filter_In in H. destruct H as [H1 H2].
  simpl in H2. split; [exact H1|].
  apply negb_true_iff in H2. apply Nat.eqb_neq in H2. exact H2.
Qed.

Lemma in_remove_entry : forall k v t i r,
  In (i, r) (remove_entry k v t) -> In (i, r) t /\ ~ (i = k /\ r = v).
Proof.
  unfold remove_entry. intros k v t i r H. apply filter_In in H. destruct H as [H1 H2].
  simpl in H2. split; [exact H1|].
  intros [-> ->]. rewrite !Nat.eqb_refl in H2. discriminate.
Qed.

Lemma lookup_remove_key_other : forall k k' t,
  k' <> k -> lookup k' (remove_key k t) = lookup k' t.
Proof.
  unfold remove_key. induction t as [|[a w] t IH]; intros Hne; simpl; [reflexivity|].
  destruct (Nat.eqb_spec a k) as [E|E]; simpl.
  - subst a. destruct (Nat.eqb_spec k' k); [contradiction|]. auto.
  - rewrite IH by assumption. reflexivity.
Qed.

Lemma lookup_remove_entry_other : forall k0 v t k v',
  lookup k t = Some v' -> v' <> v -> lookup k (remove_entry k0 v t) = Some v'.
Proof.
  unfold remove_entry. induction t as [|[a w] t IH]; intros k v' H Hne; [discriminate|].
  revert H. simpl. destruct (Nat.eqb_spec k a) as [E|E]; intros H.
  - injection H as ->. subst a.
    destruct (Nat.eqb_spec v' v); [contradiction|].
    rewrite andb_false_r. simpl. rewrite Nat.eqb_refl. reflexivity.
  - destruct (negb ((a =? k0) && (w =? v))); simpl.
    + destruct (Nat.eqb_spec k a); [contradiction|]. apply IH; assumption.
    + apply IH; assumption.
Qed.

(* ---- reply slots as a multiset ---- *)
Lemma flat_upd_same : forall l i f,
  (forall q, q_slot (f q) = q_slot q) -> flat_map slotl (upd l i f) = flat_map slotl l.
Proof.
  induction l as [|a l IH]; intros i f Hf; [reflexivity|].
  destruct i as [|i]; simpl.
  - unfold slotl at 1 3. rewrite Hf. reflexivity.
  - rewrite IH by assumption. reflexivity.
Qed.

Lemma flat_upd_set : forall l i q x,
  get l i = Some q -> q_slot q = None ->
  Permutation (flat_map slotl (upd l i (set_slot x))) (x :: flat_map slotl l).
Proof.
  unfold get. induction l as [|a l IH]; intros i q x Hg Hs.
  - destruct i; discriminate.
  - destruct i as [|i]; simpl in Hg.
    + injection Hg as ->. simpl. unfold slotl at 1 2. simpl. rewrite Hs. simpl.
      apply Permutation_refl.
    + simpl. eapply Permutation_trans.
      * apply Permutation_app_head. eapply IH; eassumption.
      * apply Permutation_sym. apply Permutation_middle.
Qed.

Lemma perm_snoc_mid : forall (x : resp) c a b,
  Permutation c (a ++ b) -> Permutation (c ++ [x]) (a ++ x :: b).
Proof.
  intros x c a b H. eapply Permutation_trans.
  - apply Permutation_sym. apply Permutation_cons_append.
  - eapply Permutation_trans; [apply perm_skip; exact H|]. apply Permutation_middle.
Qed.

(* ---- the invariant ---- *)
Definition live (p : pc) : Prop := p = P1 \/ p = P2 \/ p = P3.

Record Inv (R : list resp) (s : st) : Prop := mkInv {
  (* a table entry points at a started, unanswered request with that id, not in the matcher's hands *)
  inv_entry : forall i r, In (i, r) (table s) ->
    exists q, get (reqs s) r = Some q /\ q_id q = i /\ live (q_pc q) /\ q_slot q = None /\
              (forall x, matcher s <> M1 r x);
  inv_und : undisturbed s;
  inv_slot : forall r q x, get (reqs s) r = Some q -> q_slot q = Some x -> fst x = q_id q;
  inv_match : forall r x, matcher s = M1 r x ->
    exists q, get (reqs s) r = Some q /\ fst x = q_id q /\ q_slot q = None /\ q_pc q <> P0;
  inv_res : own_response s;
  inv_p0 : forall r q, get (reqs s) r = Some q -> q_pc q = P0 -> q_slot q = None;
  inv_perm : Permutation (consumed s) (stream s ++ in_flight s ++ in_slots s);
  inv_hist : consumed s ++ incoming s = R
}.

Definition mk0 (i : nat) : req := {| q_id := i; q_pc := P0; q_slot := None; q_res := RNone |}.

Lemma init_req : forall ids r q, get (map mk0 ids) r = Some q ->
  q_pc q = P0 /\ q_slot q = None /\ q_res q = RNone.
Proof.
  unfold get. intros ids r q H. apply nth_error_In in H. apply in_map_iff in H.
  destruct H as (i & <- & _). simpl. auto.
Qed.

Lemma init_slots : forall ids, flat_map slotl (map mk0 ids) = [].
Proof. induction ids as [|i ids IH]; simpl; auto. Qed.

Lemma inv_init : forall ids R, Inv R (init ids R).
Proof.
  intros ids R. constructor; unfold undisturbed, own_response, init; simpl;
    fold mk0.
  - intros i r [].
  - intros r q Hg Hw. apply init_req in Hg. destruct Hg as (Hp & _ & _).
    unfold waiting in Hw. rewrite Hp in Hw. discriminate.
  - intros r q x Hg Hs. apply init_req in Hg. destruct Hg as (_ & Hs' & _). congruence.
  - intros r x H. discriminate.
  - intros r q x Hg Hr. apply init_req in Hg. destruct Hg as (_ & _ & Hr'). congruence.
  - intros r q Hg _. apply init_req in Hg. tauto.
  - unfold in_flight, in_slots. simpl. fold mk0. fold slotl. rewrite init_slots. constructor.
  - reflexivity.
Qed.

(* ---- request-local steps that leave the table alone ---- *)
Lemma inv_upd : forall R s r q f,
  Inv R s -> get (reqs s) r = Some q ->
  (forall q0, q_id (f q0) = q_id q0) -> (forall q0, q_slot (f q0) = q_slot q0) ->
  (live (q_pc q) -> live (q_pc (f q))) ->
  (waiting (f q) = true -> waiting q = true) ->
  (q_pc (f q) = P0 -> q_pc q = P0) ->
  (forall x, q_res (f q) = RResp x -> fst x = q_id q) ->
  Inv R (with_reqs s (upd (reqs s) r f)).
Proof.
  intros R s r q f HI Hget Fid Fslot Flive Fwait Fp0 Fres.
  destruct HI as [Ient Iund Islot Imatch Ires Ip0 Iperm Ihist].
  unfold undisturbed, own_response in *.
  constructor; unfold with_reqs, undisturbed, own_response; simpl.
  - intros i r' Hin. destruct (Ient _ _ Hin) as (q' & Hg & Hid & Hl & Hs & Hm).
    destruct (Nat.eq_dec r' r) as [->|Hne].
    + assert (q' = q) by congruence. subst q'. exists (f q).
      rewrite (get_upd_eq _ _ _ _ Hget), Fid, Fslot. splits; auto.
    + exists q'. rewrite get_upd_neq by assumption. splits; auto.
  - intros r' q' Hg Hw Hs Hm.
    destruct (get_upd_inv _ _ _ _ _ Hg) as [[-> (q0 & Hg0 & ->)] | [Hne Hg0]].
    + assert (q0 = q) by congruence. subst q0. rewrite Fid. rewrite Fslot in Hs.
      apply Iund; auto.
    + apply Iund; auto.
  - intros r' q' x Hg Hs.
    destruct (get_upd_inv _ _ _ _ _ Hg) as [[-> (q0 & Hg0 & ->)] | [Hne Hg0]].
    + rewrite Fid. rewrite Fslot in Hs. eapply Islot; eauto.
    + eapply Islot; eauto.
  - intros r' x Hm. destruct (Imatch _ _ Hm) as (q' & Hg & Hid & Hs & Hp).
    destruct (Nat.eq_dec r' r) as [->|Hne].
    + assert (q' = q) by congruence. subst q'. exists (f q).
      rewrite (get_upd_eq _ _ _ _ Hget), Fid, Fslot. splits; auto.
    + exists q'. rewrite get_upd_neq by assumption. splits; auto.
  - intros r' q' x Hg Hr.
    destruct (get_upd_inv _ _ _ _ _ Hg) as [[-> (q0 & Hg0 & ->)] | [Hne Hg0]].
    + assert (q0 = q) by congruence. subst q0. rewrite Fid. auto.
    + eapply Ires; eauto.
  - intros r' q' Hg Hp.
    destruct (get_upd_inv _ _ _ _ _ Hg) as [[-> (q0 & Hg0 & ->)] | [Hne Hg0]].
    + assert (q0 = q) by congruence. subst q0. rewrite Fslot. eapply Ip0; eauto.
    + eapply Ip0; eauto.
  - unfold in_flight, in_slots in *. simpl. fold slotl in *.
    rewrite flat_upd_same by assumption. exact Iperm.
  - exact Ihist.
Qed.

(* ---- Reg r, id free: new entry at the head of the table ---- *)
Lemma inv_reg_new : forall R s r q,
  Inv R s -> get (reqs s) r = Some q -> q_pc q = P0 -> lookup (q_id q) (table s) = None ->
  Inv R (with_table (with_reqs s (upd (reqs s) r (set_pc P1))) ((q_id q, r) :: table s)).
Proof.
  intros R s r q HI Hget Hpc Hlk.
  destruct HI as [Ient Iund Islot Imatch Ires Ip0 Iperm Ihist].
  unfold undisturbed, own_response in *.
  assert (Hnl : ~ live (q_pc q)).
  { rewrite Hpc. intros [H|[H|H]]; discriminate. }
  constructor; unfold with_table, with_reqs, undisturbed, own_response; simpl.
  - intros i r' [Heq|Hin].
    + injection Heq as <- <-. exists (set_pc P1 q).
      rewrite (get_upd_eq _ _ _ _ Hget). simpl. splits; auto.
      * left; reflexivity.
      * eapply Ip0; eauto.
      * intros x Hm. destruct (Imatch _ _ Hm) as (q' & Hg & _ & _ & Hp).
        assert (q' = q) by congruence. subst q'. contradiction.
    + destruct (Ient _ _ Hin) as (q' & Hg & Hid & Hl & Hs & Hm).
      assert (Hne : r' <> r).
      { intros ->. assert (q' = q) by congruence. subst q'. contradiction. }
      exists q'. rewrite get_upd_neq by assumption. splits; auto.
  - intros r' q' Hg Hw Hs Hm.
    destruct (get_upd_inv _ _ _ _ _ Hg) as [[-> (q0 & Hg0 & ->)] | [Hne Hg0]].
    + assert (q0 = q) by congruence. subst q0. simpl. rewrite Nat.eqb_refl. reflexivity.
    + pose proof (Iund _ _ Hg0 Hw Hs Hm) as Hl.
      destruct (Nat.eqb_spec (q_id q') (q_id q)) as [E|E]; [|exact Hl].
      rewrite E in Hl. congruence.
  - intros r' q' x Hg Hs.
    destruct (get_upd_inv _ _ _ _ _ Hg) as [[-> (q0 & Hg0 & ->)] | [Hne Hg0]].
    + simpl in *. eapply Islot; eauto.
    + eapply Islot; eauto.
  - intros r' x Hm. destruct (Imatch _ _ Hm) as (q' & Hg & Hid & Hs & Hp).
    assert (Hne : r' <> r).
    { intros ->. assert (q' = q) by congruence. subst q'. contradiction. }
    exists q'. rewrite get_upd_neq by assumption. splits; auto.
  - intros r' q' x Hg Hr.
    destruct (get_upd_inv _ _ _ _ _ Hg) as [[-> (q0 & Hg0 & ->)] | [Hne Hg0]].
    + simpl in *. eapply Ires; eauto.
    + eapply Ires; eauto.
  - intros r' q' Hg Hp.
    destruct (get_upd_inv _ _ _ _ _ Hg) as [[-> (q0 & Hg0 & ->)] | [Hne Hg0]].
    + simpl in Hp. discriminate.
    + eapply Ip0; eauto.
  - unfold in_flight, in_slots in *. simpl. fold slotl in *.
    rewrite flat_upd_same by reflexivity. exact Iperm.
  - exact Ihist.
Qed.

(* ---- Cleanup r (repaired): removes only r's own entry ---- *)
Lemma inv_cleanup : forall R s r q,
  Inv R s -> get (reqs s) r = Some q -> q_pc q = P3 ->
  Inv R (with_table (with_reqs s (upd (reqs s) r (set_pc PDone)))
                    (remove_entry (q_id q) r (table s))).
Proof.
  intros R s r q HI Hget Hpc.
  destruct HI as [Ient Iund Islot Imatch Ires Ip0 Iperm Ihist].
  unfold undisturbed, own_response in *.
  constructor; unfold with_table, with_reqs, undisturbed, own_response; simpl.
  - intros i r' Hin. apply in_remove_entry in Hin. destruct Hin as [Hin Hnot].
    destruct (Ient _ _ Hin) as (q' & Hg & Hid & Hl & Hs & Hm).
    assert (Hne : r' <> r).
    { intros ->. assert (q' = q) by congruence. subst q'. apply Hnot. auto. }
    exists q'. rewrite get_upd_neq by assumption. splits; auto.
  - intros r' q' Hg Hw Hs Hm.
    destruct (get_upd_inv _ _ _ _ _ Hg) as [[-> (q0 & Hg0 & ->)] | [Hne Hg0]].
    + discriminate.
    + apply lookup_remove_entry_other; [|exact Hne]. apply Iund; auto.
  - intros r' q' x Hg Hs.
    destruct (get_upd_inv _ _ _ _ _ Hg) as [[-> (q0 & Hg0 & ->)] | [Hne Hg0]].
    + simpl in *. eapply Islot; eauto.
    + eapply Islot; eauto.
  - intros r' x Hm. destruct (Imatch _ _ Hm) as (q' & Hg & Hid & Hs & Hp).
    destruct (Nat.eq_dec r' r) as [->|Hne].
    + assert (q' = q) by congruence. subst q'. exists (set_pc PDone q).
      rewrite (get_upd_eq _ _ _ _ Hget). simpl. splits; auto. discriminate.
    + exists q'. rewrite get_upd_neq by assumption. splits; auto.
  - intros r' q' x Hg Hr.
    destruct (get_upd_inv _ _ _ _ _ Hg) as [[-> (q0 & Hg0 & ->)] | [Hne Hg0]].
    + simpl in *. eapply Ires; eauto.
    + eapply Ires; eauto.
  - intros r' q' Hg Hp.
    destruct (get_upd_inv _ _ _ _ _ Hg) as [[-> (q0 & Hg0 & ->)] | [Hne Hg0]].
    + simpl in Hp. discriminate.
    + eapply Ip0; eauto.
  - unfold in_flight, in_slots in *. simpl. fold slotl in *.
    rewrite flat_upd_same by reflexivity. exact Iperm.
  - exact Ihist.
Qed.

(* ---- RLookup, id found: look up and delete in one critical section ---- *)
Lemma inv_lookup_hit : forall R s x rest slot,
  Inv R s -> matcher s = M0 -> incoming s = x :: rest -> lookup (fst x) (table s) = Some slot ->
  Inv R {| reqs := reqs s; table := remove_key (fst x) (table s); incoming := rest;
           matcher := M1 slot x; stream := stream s; consumed := consumed s ++ [x] |}.
Proof.
  intros R s x rest slot HI Hm0 Hinc Hlk.
  destruct HI as [Ient Iund Islot Imatch Ires Ip0 Iperm Ihist].
  unfold undisturbed, own_response in *.
  pose proof (lookup_In _ _ _ Hlk) as Hin0.
  destruct (Ient _ _ Hin0) as (qs & Hgs & Hids & Hls & Hss & _).
  constructor; unfold undisturbed, own_response; simpl.
  - intros i r' Hin. apply in_remove_key in Hin. destruct Hin as [Hin Hik].
    destruct (Ient _ _ Hin) as (q' & Hg & Hid & Hl & Hs & Hm).
    exists q'. splits; auto.
    intros x' Heq. injection Heq as -> _.
    assert (q' = qs) by congruence. subst q'. congruence.
  - intros r' q' Hg Hw Hs Hm.
    assert (Hold : lookup (q_id q') (table s) = Some r').
    { apply Iund; auto. intros x'. rewrite Hm0. discriminate. }
    rewrite lookup_remove_key_other; [exact Hold|].
    intros E. rewrite E in Hold. apply (Hm x). congruence.
  - exact Islot.
  - intros r' x' Heq. injection Heq as <- <-. exists qs. splits; auto.
    destruct Hls as [H|[H|H]]; rewrite H; discriminate.
  - exact Ires.
  - exact Ip0.
  - unfold in_flight in *. simpl. rewrite Hm0 in Iperm. simpl in Iperm.
    apply perm_snoc_mid. exact Iperm.
  - rewrite <- app_assoc. simpl. rewrite <- Hinc. exact Ihist.
Qed.

(* ---- RLookup, id unknown: the response goes to the stream ---- *)
Lemma inv_lookup_miss : forall R s x rest,
  Inv R s -> matcher s = M0 -> incoming s = x :: rest ->
  Inv R {| reqs := reqs s; table := table s; incoming := rest; matcher := M0;
           stream := stream s ++ [x]; consumed := consumed s ++ [x] |}.
Proof.
  intros R s x rest HI Hm0 Hinc.
  destruct HI as [Ient Iund Islot Imatch Ires Ip0 Iperm Ihist].
  unfold undisturbed, own_response in *.
  constructor; unfold undisturbed, own_response; simpl.
  - intros i r' Hin. destruct (Ient _ _ Hin) as (q' & Hg & Hid & Hl & Hs & Hm).
    exists q'. splits; auto. intros x'. discriminate.
  - intros r' q' Hg Hw Hs Hm. apply Iund; auto. intros x'. rewrite Hm0. discriminate.
  - exact Islot.
  - intros r' x' Heq. discriminate.
  - exact Ires.
  - exact Ip0.
  - unfold in_flight in *. simpl. rewrite Hm0 in Iperm. simpl in Iperm.
    rewrite <- app_assoc. simpl. apply perm_snoc_mid. exact Iperm.
  - rewrite <- app_assoc. simpl. rewrite <- Hinc. exact Ihist.
Qed.

(* ---- RDeliver: the held response goes into its request's (empty) slot ---- *)
Lemma inv_deliver : forall R s slot x,
  Inv R s -> matcher s = M1 slot x ->
  Inv R {| reqs := upd (reqs s) slot (set_slot x); table := table s; incoming := incoming s;
           matcher := M0; stream := stream s; consumed := consumed s |}.
Proof.
  intros R s slot x HI Hm1.
  destruct HI as [Ient Iund Islot Imatch Ires Ip0 Iperm Ihist].
  unfold undisturbed, own_response in *.
  destruct (Imatch _ _ Hm1) as (qs & Hgs & Hids & Hss & Hps).
  constructor; unfold undisturbed, own_response; simpl.
  - intros i r' Hin. destruct (Ient _ _ Hin) as (q' & Hg & Hid & Hl & Hs & Hm).
    assert (Hne : r' <> slot).
    { intros ->. apply (Hm x). exact Hm1. }
    exists q'. rewrite get_upd_neq by assumption. splits; auto. intros x'. discriminate.
  - intros r' q' Hg Hw Hs Hm.
    destruct (get_upd_inv _ _ _ _ _ Hg) as [[-> (q0 & Hg0 & ->)] | [Hne Hg0]].
    + simpl in Hs. discriminate.
    + apply Iund; auto. intros x'. rewrite Hm1. intros Heq. injection Heq as E _. congruence.
  - intros r' q' x' Hg Hs.
    destruct (get_upd_inv _ _ _ _ _ Hg) as [[-> (q0 & Hg0 & ->)] | [Hne Hg0]].
    + assert (q0 = qs) by congruence. subst q0. simpl in *. congruence.
    + eapply Islot; eauto.
  - intros r' x' Heq. discriminate.
  - intros r' q' x' Hg Hr.
    destruct (get_upd_inv _ _ _ _ _ Hg) as [[-> (q0 & Hg0 & ->)] | [Hne Hg0]].
    + simpl in *. eapply Ires; eauto.
    + eapply Ires; eauto.
  - intros r' q' Hg Hp.
    destruct (get_upd_inv _ _ _ _ _ Hg) as [[-> (q0 & Hg0 & ->)] | [Hne Hg0]].
    + assert (q0 = qs) by congruence. subst q0. simpl in Hp. contradiction.
    + eapply Ip0; eauto.
  - unfold in_flight, in_slots in *. simpl. fold slotl in *.
    rewrite Hm1 in Iperm. simpl in Iperm.
    eapply Permutation_trans; [exact Iperm|].
    apply Permutation_app_head. apply Permutation_sym.
    eapply flat_upd_set; eassumption.
  - exact Ihist.
Qed.

(* ---- every label preserves the invariant ---- *)
Lemma inv_step : forall R s l, Inv R s -> Inv R (step true s l).
Proof.
  intros R s l HI. destruct l as [r|r|r|r|r| |]; unfold step.
  - (* Reg *)
    destruct (get (reqs s) r) as [q|] eqn:Hget; [|exact HI].
    destruct (q_pc q) eqn:Hpc; simpl; try exact HI.
    destruct (lookup (q_id q) (table s)) as [v|] eqn:Hlk.
    + apply inv_upd with (q := q); [exact HI | exact Hget | reflexivity | reflexivity | | | | ].
      * rewrite Hpc. intros [H|[H|H]]; discriminate.
      * simpl. discriminate.
      * simpl. discriminate.
      * simpl. discriminate.
    + apply inv_reg_new; auto.
  - (* SendReq *)
    destruct (get (reqs s) r) as [q|] eqn:Hget; [|exact HI].
    destruct (q_pc q) eqn:Hpc; simpl; try exact HI.
    apply inv_upd with (q := q); [exact HI | exact Hget | reflexivity | reflexivity | | | | ].
    + intros _. simpl. right; left; reflexivity.
    + intros _. unfold waiting. rewrite Hpc. reflexivity.
    + simpl. discriminate.
    + simpl. intros x Hr. apply (inv_res _ _ HI) with (r := r); assumption.
  - (* TakeResp *)
    destruct (get (reqs s) r) as [q|] eqn:Hget; [|exact HI].
    destruct (q_pc q) eqn:Hpc; simpl; try exact HI.
    destruct (q_slot q) as [x|] eqn:Hs; [|exact HI].
    apply inv_upd with (q := q); [exact HI | exact Hget | reflexivity | reflexivity | | | | ].
    + intros _. simpl. right; right; reflexivity.
    + simpl. discriminate.
    + simpl. discriminate.
    + simpl. intros x' Hr. injection Hr as <-.
      apply (inv_slot _ _ HI) with (r := r); assumption.
  - (* CtxEnd *)
    destruct (get (reqs s) r) as [q|] eqn:Hget; [|exact HI].
    destruct (q_pc q) eqn:Hpc; simpl; try exact HI.
    apply inv_upd with (q := q); [exact HI | exact Hget | reflexivity | reflexivity | | | | ].
    + intros _. simpl. right; right; reflexivity.
    + simpl. discriminate.
    + simpl. discriminate.
    + simpl. discriminate.
  - (* Cleanup *)
    destruct (get (reqs s) r) as [q|] eqn:Hget; [|exact HI].
    destruct (q_pc q) eqn:Hpc; simpl; try exact HI.
    apply inv_cleanup; auto.
  - (* RLookup *)
    destruct (matcher s) eqn:Hm; [|exact HI].
    destruct (incoming s) as [|x rest] eqn:Hinc; [exact HI|].
    destruct (lookup (fst x) (table s)) as [slot|] eqn:Hlk.
    + apply inv_lookup_hit; auto.
    + apply inv_lookup_miss; auto.
  - (* RDeliver *)
    destruct (matcher s) as [|slot x] eqn:Hm; [exact HI|].
    apply inv_deliver; auto.
Qed.

Lemma inv_run : forall R ls s, Inv R s -> Inv R (run true s ls).
Proof.
  unfold run. induction ls as [|l ls IH]; intros s HI; simpl; [exact HI|].
  apply IH. apply inv_step. exact HI.
Qed.

Lemma inv_no_leak : forall R s, Inv R s -> no_leak s.
Proof.
  intros R s HI Hall. destruct (table s) as [|[i r] t] eqn:Ht; [reflexivity|].
  destruct (inv_entry _ _ HI i r) as (q & Hg & _ & Hl & _).
  { rewrite Ht. left; reflexivity. }
  destruct (Hall _ _ Hg) as [H|H]; rewrite H in Hl; destruct Hl as [E|[E|E]]; discriminate.
Qed.

Theorem cmd_table_ok : forall (ids : list nat) (responses : list resp) (ls : list label),
  let s := run true (init ids responses) ls in
  undisturbed s /\ own_response s /\ no_leak s /\
  (* (b) every response taken from the wire is in exactly one place: the stream,
     the matcher's hands, or one reply slot *)
  Permutation (consumed s) (stream s ++ in_flight s ++ in_slots s) /\
  consumed s ++ incoming s = responses.
Proof.
  intros ids responses ls s.
  assert (HI : Inv responses s) by (apply inv_run, inv_init).
  splits.
  - exact (inv_und _ _ HI).
  - exact (inv_res _ _ HI).
  - exact (inv_no_leak _ _ HI).
  - exact (inv_perm _ _ HI).
  - exact (inv_hist _ _ HI).
Qed.

Print Assumptions cmd_table_ok.

(* Liveness of the routing, from any reachable state: a call that has sent its request and whose response is the
   next one on the wire completes with exactly that response - whatever other calls (same id or not) did before. *)
Theorem answered_call_completes : forall ids responses ls r q x rest,
  let s := run true (init ids responses) ls in
  get (reqs s) r = Some q -> q_pc q = P2 -> q_slot q = None -> matcher s = M0 ->
  incoming s = x :: rest -> fst x = q_id q ->
  let s' := run true s [RLookup; RDeliver; TakeResp r] in
  exists q', get (reqs s') r = Some q' /\ q_res q' = RResp x /\ q_pc q' = P3.
Proof.
  intros ids responses ls r q x rest s Hg Hp Hs Hm Hi Hx s'.
  destruct (cmd_table_ok ids responses ls) as [Hu _]. fold s in Hu.
  assert (Hl : lookup (q_id q) (table s) = Some r).
  { apply (Hu r q Hg); auto.
    - unfold waiting. rewrite Hp. reflexivity.
    - intros y. rewrite Hm. discriminate. }
  subst s'. unfold run. cbn [fold_left]. 
  assert (E1 : step true s RLookup =
               {| reqs := reqs s; table := remove_key (fst x) (table s); incoming := rest; matcher := M1 r x;
                  stream := stream s; consumed := consumed s ++ [x] |}).
  { cbn [step]. rewrite Hm, Hi, Hx, Hl. reflexivity. }
  rewrite E1. cbn [step matcher reqs].
  rewrite (get_upd_eq _ _ _ _ Hg). cbn [set_slot q_pc q_slot]. rewrite Hp. cbn [pc_eqb].
  eexists. split.
  - cbn [with_reqs reqs]. apply get_upd_eq. apply get_upd_eq. exact Hg.
  - split; reflexivity.
Qed.
