(* Auxiliary invariant and the user-facing teardown theorems (continues TeardownInv.v). *)
From Coq Require Import List Bool Arith Lia.
Import ListNotations.
From Lime Require Import Chan.Teardown Chan.TeardownFacts Chan.TeardownInv.

(* ---- auxiliary facts about the two application goroutines ---- *)
Definition is_term (m : marker) : Prop := exists t, m = MTerm t.
Definition Aux (s : tst) : Prop :=
  (match sapp s with
   | SStopping _ => e_cancel (sv s) = true
   | SCloseT => e_rcv (sv s) = false
   | SDone => e_rcv (sv s) = false /\ e_open (sv s) = false
   | _ => True
   end) /\
  (w_marker (to_cl s) = MNone \/ is_term (w_marker (to_cl s))) /\
  (forall m, e_ses (cl s) = Some m -> is_term m) /\
  (forall m, capp s = CHasSes m -> is_term m) /\
  (capp s = CFinished -> e_open (cl s) = false /\ exists t, e_state (cl s) = STerm t) /\
  (capp s = CClosed -> e_open (cl s) = false /\ e_rcv (cl s) = false).

Ltac aux_fin :=
  unfold is_term in *; subst;
  repeat match goal with
  | H : _ /\ _ |- _ => destruct H
  | H : Some _ = Some _ |- _ => inversion H; subst; clear H
  | H : CHasSes _ = CHasSes _ |- _ => inversion H; subst; clear H
  | H : forall m, Some ?x = Some m -> _ |- _ => specialize (H x eq_refl)
  | H : forall m, CHasSes ?x = CHasSes m -> _ |- _ => specialize (H x eq_refl)
  | H : ?a = ?a -> _ |- _ => specialize (H eq_refl)
  | H : ?P -> _, H' : ?P |- _ => specialize (H H')
  | H : exists _, _ |- _ => destruct H
  | H : _ \/ _ |- _ => destruct H
  end; try discriminate; try congruence; eauto.

Lemma aux_step inproc s l : Aux s -> Aux (tstep inproc true s l).
Proof.
  full_destruct s. unfold Aux. cbn. intros H.
  destruct l as [w|w|w| | | |t|]; try destruct w; unfold_step; cbn; split_ifs; cbn;
    unfold upd_e, ep, wire_to, other, set_side, set_wire, push_eof; cbn;
    repeat match goal with |- _ /\ _ => split end; intros; aux_fin.
Qed.

