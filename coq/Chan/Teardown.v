(* Model D, part 4 — ending an established session: both endpoints, both
   directions of the connection, the two receiver goroutines, traffic in flight,
   the consumers of the inbound streams, the client's FinishSession /
   observer-side Close and the server's handleChannel (dispatch loop, deferred
   FinishSession or an explicit FailSession), as one transition system.

   A connection direction is  data^before [marker] data^after [eof] : after a
   receiver has met a session envelope it stops reading, so what follows the
   marker is never read.  [inproc] selects the in-process transport, where
   closing one end closes both at once (no in-band EOF); [fixed] selects the
   repaired in-process Receive/Connected (what was sent before the closing is
   still delivered).  Disabled labels are no-ops, so every list of labels is a
   schedule.  Definitions only. *)
From Coq Require Import List Bool Arith.
Import ListNotations.

Inductive term := TFinished | TFailed.
Inductive marker := MNone | MFinishing | MTerm (t : term).
Inductive estate := SEst | STerm (t : term).

Record wire := { w_before : nat; w_marker : marker; w_after : nat; w_eof : bool }.

Record endpoint := {
  e_state : estate;          (* channel.state *)
  e_open : bool;             (* own transport not closed (conn != nil; in-process: not closed by either side) *)
  e_byremote : bool;         (* in-process: the transport was closed by the remote party, not by a local Close *)
  e_eofseen : bool;          (* TCP: the receiver read EOF *)
  e_rcv : bool;              (* the receiver goroutine is running *)
  e_cancel : bool;           (* the receiver's context was cancelled (stopReceiver) *)
  e_ses : option marker;     (* the session stream (buffer of one) *)
  e_buf : nat;               (* envelopes waiting in the inbound data streams *)
  e_delivered : nat          (* envelopes handed to the consumers *)
}.

Inductive side := Cl | Sv.

Inductive cpc :=             (* the client application goroutine *)
| CRun                       (* doing nothing about the session *)
| CSentFinishing             (* FinishSession: finishing sent, waiting for a session envelope *)
| CHasSes (m : marker)       (* got it; about to store the state and close *)
| CFinished                  (* FinishSession returned *)
| CClosing                   (* observer side: channel.Close() in progress (receiver stopped) *)
| CClosed.

Inductive spc :=             (* the server goroutine serving the session (handleChannel) *)
| SListen                    (* in the dispatch loop *)
| SEnding (t : term)         (* terminal envelope sent; about to store the state and stop the receiver *)
| SStopping (t : term)       (* waiting for the own receiver to end *)
| SCloseT                    (* about to close the transport *)
| SDone.

Record tst := {
  cl : endpoint; sv : endpoint;
  to_cl : wire; to_sv : wire;
  cap : nat;                  (* capacity of the inbound streams *)
  capp : cpc; sapp : spc;
  lost : bool                 (* a receive was attempted on a closed in-process transport that still held envelopes *)
}.

Inductive tlabel :=
| TSend (s : side)            (* an application goroutine of that side sends a data envelope *)
| TRecv (s : side)            (* that side's receiver goroutine performs its next step *)
| TConsume (s : side)         (* a consumer takes an envelope from that side's inbound streams *)
| TClientFinish               (* the client application calls FinishSession *)
| TClientStep                 (* the client application goroutine performs its next step *)
| TClientClose                (* the client closes its channel (what the high-level client does on its own) *)
| TServerEnd (t : term)       (* the server decides to finish (handler error, Close) or fail the session *)
| TServerStep.                (* the serving goroutine performs its next step *)

Definition connected (inproc fixed : bool) (e : endpoint) (w : wire) : bool :=
  if inproc then
    (* both ends share the closing; on the repaired transport the side that did not close still
       holds what was sent before the closing, and stays connected until it has received it *)
    e_open e || (fixed && e_byremote e && (Nat.ltb 0 (w_before w) || match w_marker w with MNone => false | _ => true end))
  else e_open e && negb (e_eofseen e).

Definition established (inproc fixed : bool) (e : endpoint) (w : wire) : bool :=
  match e_state e with SEst => connected inproc fixed e w | _ => false end.

(* ensureEstablished + the transport's own check in Send *)
Definition can_send (inproc : bool) (e : endpoint) : bool :=
  match e_state e with
  | SEst => if inproc then e_open e else e_open e && negb (e_eofseen e)
  | _ => false
  end.

Definition upd_e (e : endpoint) (st : estate) (op eo rc cn : bool) (ss : option marker) (bf dl : nat) : endpoint :=
  {| e_state := st; e_open := op; e_byremote := e_byremote e; e_eofseen := eo; e_rcv := rc; e_cancel := cn; e_ses := ss;
     e_buf := bf; e_delivered := dl |}.

Definition push_data (w : wire) : wire :=
  match w_marker w with
  | MNone => {| w_before := S (w_before w); w_marker := MNone; w_after := 0; w_eof := w_eof w |}
  | m => {| w_before := w_before w; w_marker := m; w_after := S (w_after w); w_eof := w_eof w |}
  end.
Definition push_marker (w : wire) (m : marker) : wire :=
  match w_marker w with
  | MNone => {| w_before := w_before w; w_marker := m; w_after := 0; w_eof := w_eof w |}
  | _ => {| w_before := w_before w; w_marker := w_marker w; w_after := S (w_after w); w_eof := w_eof w |}
  end.
Definition push_eof (w : wire) : wire :=
  {| w_before := w_before w; w_marker := w_marker w; w_after := w_after w; w_eof := true |}.

Definition set_side (s : tst) (which : side) (e : endpoint) : tst :=
  match which with
  | Cl => {| cl := e; sv := sv s; to_cl := to_cl s; to_sv := to_sv s; cap := cap s; capp := capp s; sapp := sapp s; lost := lost s |}
  | Sv => {| cl := cl s; sv := e; to_cl := to_cl s; to_sv := to_sv s; cap := cap s; capp := capp s; sapp := sapp s; lost := lost s |}
  end.
Definition set_wire (s : tst) (towards : side) (w : wire) : tst :=
  match towards with
  | Cl => {| cl := cl s; sv := sv s; to_cl := w; to_sv := to_sv s; cap := cap s; capp := capp s; sapp := sapp s; lost := lost s |}
  | Sv => {| cl := cl s; sv := sv s; to_cl := to_cl s; to_sv := w; cap := cap s; capp := capp s; sapp := sapp s; lost := lost s |}
  end.
Definition set_capp (s : tst) (p : cpc) : tst :=
  {| cl := cl s; sv := sv s; to_cl := to_cl s; to_sv := to_sv s; cap := cap s; capp := p; sapp := sapp s; lost := lost s |}.
Definition set_sapp (s : tst) (p : spc) : tst :=
  {| cl := cl s; sv := sv s; to_cl := to_cl s; to_sv := to_sv s; cap := cap s; capp := capp s; sapp := p; lost := lost s |}.
Definition set_lost (s : tst) : tst :=
  {| cl := cl s; sv := sv s; to_cl := to_cl s; to_sv := to_sv s; cap := cap s; capp := capp s; sapp := sapp s; lost := true |}.

Definition ep (s : tst) (which : side) : endpoint := match which with Cl => cl s | Sv => sv s end.
Definition wire_to (s : tst) (which : side) : wire := match which with Cl => to_cl s | Sv => to_sv s end.
Definition other (which : side) : side := match which with Cl => Sv | Sv => Cl end.

(* closing one's transport: TCP/WebSocket put an EOF behind what was sent; in-process closes both ends *)
Definition close_transport (inproc : bool) (s : tst) (which : side) : tst :=
  let e := ep s which in
  let s1 := set_side s which
              {| e_state := e_state e; e_open := false; e_byremote := false; e_eofseen := e_eofseen e; e_rcv := e_rcv e;
                 e_cancel := e_cancel e; e_ses := e_ses e; e_buf := e_buf e; e_delivered := e_delivered e |} in
  if inproc then
    let p := ep s1 (other which) in
    if e_open p then
      set_side s1 (other which)
        {| e_state := e_state p; e_open := false; e_byremote := true; e_eofseen := e_eofseen p; e_rcv := e_rcv p;
           e_cancel := e_cancel p; e_ses := e_ses p; e_buf := e_buf p; e_delivered := e_delivered p |}
    else s1
  else set_wire s1 (other which) (push_eof (wire_to s1 (other which))).

(* one step of a receiver goroutine: the loop test, Receive, and the hand-over to a stream *)
Definition recv_step (inproc fixed : bool) (s : tst) (which : side) : tst :=
  let e := ep s which in
  let w := wire_to s which in
  let exit e' := set_side s which (upd_e e' (e_state e') (e_open e') (e_eofseen e') false (e_cancel e') (e_ses e') (e_buf e') (e_delivered e')) in
  if negb (e_rcv e) then s
  else if e_cancel e then exit e
  else if negb (established inproc fixed e w) then
    (* the loop ends; on the in-process transport as found, envelopes still queued are never read *)
    (if inproc && negb fixed && (Nat.ltb 0 (w_before w) || match w_marker w with MNone => false | _ => true end)
     then set_lost (exit e) else exit e)
  else match w_before w with
       | S k =>
           (* a data envelope: needs room in the stream (the consumer makes room) *)
           if Nat.leb (e_buf e) (cap s) then
             set_wire (set_side s which (upd_e e (e_state e) (e_open e) (e_eofseen e) true (e_cancel e) (e_ses e) (S (e_buf e)) (e_delivered e)))
                      which {| w_before := k; w_marker := w_marker w; w_after := w_after w; w_eof := w_eof w |}
           else s
       | O =>
           match w_marker w with
           | MNone =>
               if w_eof w then exit (upd_e e (e_state e) (e_open e) true (e_rcv e) (e_cancel e) (e_ses e) (e_buf e) (e_delivered e))
               else s   (* blocked in Receive *)
           | m =>
               (* a session envelope ends the receiver; the client also stores a state that does not move backwards *)
               let st' := match which, m with
                          | Cl, MTerm t => STerm t
                          | _, _ => e_state e
                          end in
               set_wire (exit (upd_e e st' (e_open e) (e_eofseen e) (e_rcv e) (e_cancel e) (Some m) (e_buf e) (e_delivered e)))
                        which {| w_before := 0; w_marker := MNone; w_after := w_after w; w_eof := w_eof w |}
           end
       end.

Definition tstep (inproc fixed : bool) (s : tst) (l : tlabel) : tst :=
  match l with
  | TSend which =>
      let e := ep s which in
      (* the send gate (state established, transport usable for writing), then one atomic write *)
      if can_send inproc e then set_wire s (other which) (push_data (wire_to s (other which))) else s
  | TRecv which => recv_step inproc fixed s which
  | TConsume which =>
      let e := ep s which in
      match e_buf e with
      | S k => set_side s which (upd_e e (e_state e) (e_open e) (e_eofseen e) (e_rcv e) (e_cancel e) (e_ses e) k (S (e_delivered e)))
      | O => s
      end
  | TClientFinish =>
      match capp s with
      | CRun => if established inproc fixed (cl s) (to_cl s)
                then set_capp (set_wire s Sv (push_marker (to_sv s) MFinishing)) CSentFinishing
                else s
      | _ => s
      end
  | TClientStep =>
      match capp s with
      | CSentFinishing =>
          (* receiveSession: the queued session envelope, in the established and (repaired) terminal states *)
          match e_ses (cl s) with
          | Some m => set_capp (set_side s Cl (upd_e (cl s) (e_state (cl s)) (e_open (cl s)) (e_eofseen (cl s)) (e_rcv (cl s)) (e_cancel (cl s)) None (e_buf (cl s)) (e_delivered (cl s)))) (CHasSes m)
          | None => s
          end
      | CHasSes (MTerm t) =>
          (* receiveSessionFromServer: store the state (receiver already ended), close the transport *)
          let s1 := set_side s Cl (upd_e (cl s) (STerm t) (e_open (cl s)) (e_eofseen (cl s)) (e_rcv (cl s)) true (e_ses (cl s)) (e_buf (cl s)) (e_delivered (cl s))) in
          if e_rcv (cl s1) then s   (* stopReceiver waits for the receiver *)
          else set_capp (close_transport inproc s1 Cl) CFinished
      | CHasSes _ => set_capp s CFinished
      | CClosing =>
          if e_rcv (cl s) then s
          else set_capp (if e_open (cl s) then close_transport inproc s Cl else s) CClosed
      | _ => s
      end
  | TClientClose =>
      match capp s with
      | CRun | CFinished =>
          (* channel.Close: stop the receiver (cancel, wait), then close the transport if it is connected *)
          set_capp (set_side s Cl (upd_e (cl s) (e_state (cl s)) (e_open (cl s)) (e_eofseen (cl s)) (e_rcv (cl s)) true (e_ses (cl s)) (e_buf (cl s)) (e_delivered (cl s)))) CClosing
      | _ => s
      end
  | TServerEnd t =>
      match sapp s with
      | SListen =>
          (* FinishSession needs established; FailSession only a usable transport *)
          if established inproc fixed (sv s) (to_sv s)
          then set_sapp (set_wire s Cl (push_marker (to_cl s) (MTerm t))) (SEnding t)
          else s
      | _ => s
      end
  | TServerStep =>
      match sapp s with
      | SListen =>
          (* the dispatch loop returns when the receiver has ended (finishing received, peer gone) *)
          if negb (e_rcv (sv s)) then
            if established inproc fixed (sv s) (to_sv s)
            then set_sapp (set_wire s Cl (push_marker (to_cl s) (MTerm TFinished))) (SEnding TFinished)
            else set_sapp s SCloseT
          else s
      | SEnding t =>
          set_sapp (set_side s Sv (upd_e (sv s) (STerm t) (e_open (sv s)) (e_eofseen (sv s)) (e_rcv (sv s)) true (e_ses (sv s)) (e_buf (sv s)) (e_delivered (sv s)))) (SStopping t)
      | SStopping t => if e_rcv (sv s) then s else set_sapp s SCloseT
      | SCloseT => set_sapp (if e_open (sv s) then close_transport inproc s Sv else s) SDone
      | SDone => s
      end
  end.

Definition trun (inproc fixed : bool) (s : tst) (ls : list tlabel) : tst := fold_left (tstep inproc fixed) ls s.

Definition e_init : endpoint :=
  {| e_state := SEst; e_open := true; e_byremote := false; e_eofseen := false; e_rcv := true; e_cancel := false; e_ses := None;
     e_buf := 0; e_delivered := 0 |}.
Definition w_init (n : nat) : wire := {| w_before := n; w_marker := MNone; w_after := 0; w_eof := false |}.
(* an established session with [a] envelopes in flight towards the client and [b] towards the server *)
Definition tinit (capacity a b : nat) : tst :=
  {| cl := e_init; sv := e_init; to_cl := w_init a; to_sv := w_init b; cap := capacity; capp := CRun; sapp := SListen; lost := false |}.

(* ---- a measure that every effective step other than a new send lowers ---- *)
Definition marker_w (m : marker) : nat := match m with MNone => 0 | _ => 2 end.
Definition cpc_w (p : cpc) : nat :=
  match p with CRun => 12 | CSentFinishing => 8 | CHasSes _ => 6 | CFinished => 4 | CClosing => 2 | CClosed => 0 end.
Definition spc_w (p : spc) : nat :=
  match p with SListen => 10 | SEnding _ => 7 | SStopping _ => 5 | SCloseT => 3 | SDone => 0 end.
Definition b2n (b : bool) : nat := if b then 1 else 0.
Definition tmeasure (s : tst) : nat :=
  3 * (w_before (to_cl s) + w_before (to_sv s)) + marker_w (w_marker (to_cl s)) + marker_w (w_marker (to_sv s)) +
  e_buf (cl s) + e_buf (sv s) + b2n (e_rcv (cl s)) + b2n (e_rcv (sv s)) + cpc_w (capp s) + spc_w (sapp s).

(* what the server has told the client, if anything *)
Definition sent_term (s : tst) : option term :=
  match sapp s with
  | SListen => None
  | SEnding t | SStopping t => Some t
  | SCloseT | SDone => match e_state (sv s) with STerm t => Some t | SEst => None end
  end.

(* the client has closed its channel on its own *)
Definition client_out (s : tst) : bool := match capp s with CClosing | CClosed => true | _ => false end.

