(* Model D, pipeline (one direction of an established channel): sender
   goroutines append whole envelopes to the wire (channel.sendToTransport holds
   the send mutex around one transport.Send, which is one Write per envelope),
   the single receiver goroutine moves the head of the wire into the bounded
   per-kind inbound buffer (receiveFromTransport), consumers take from the
   buffers.  Every list of labels is a schedule (disabled labels are no-ops). *)
From Coq Require Import List Arith Bool.
Import ListNotations.

Section Pipeline.
  Variable E : Type.                 (* envelopes *)
  Variable kind : E -> nat.          (* 0 message, 1 notification, 2 request command, 3 response command *)

  Record pst := {
    todo : list (list E);            (* what each sender goroutine still has to send, in its order *)
    sent : list E;                   (* global order in which sends completed *)
    wire : list E;                   (* in flight, FIFO *)
    buf : nat -> list E;             (* inbound buffer per kind *)
    delivered : nat -> list E        (* what consumers took, per kind, in order *)
  }.

  Inductive plabel :=
  | Send (t : nat)                   (* sender t completes the send of its next envelope *)
  | RecvMove                         (* the receiver moves the wire's head into its kind's buffer, if there is room *)
  | Handoff                          (* ... or hands it directly to a waiting consumer (how a zero-size buffer works) *)
  | Dispatch (k : nat).              (* a consumer takes the head of buffer k *)

  Definition upd_fun (f : nat -> list E) (k : nat) (v : list E) : nat -> list E :=
    fun k' => if Nat.eqb k' k then v else f k'.

  Fixpoint pop_nth (l : list (list E)) (t : nat) : option (E * list (list E)) :=
    match l, t with
    | [], _ => None
    | [] :: _, O => None
    | (e :: r) :: l', O => Some (e, r :: l')
    | x :: l', S t' => match pop_nth l' t' with Some (e, l'') => Some (e, x :: l'') | None => None end
    end.

  Definition pstep (cap : nat) (s : pst) (l : plabel) : pst :=
    match l with
    | Send t =>
        match pop_nth (todo s) t with
        | Some (e, todo') => {| todo := todo'; sent := sent s ++ [e]; wire := wire s ++ [e]; buf := buf s; delivered := delivered s |}
        | None => s
        end
    | RecvMove =>
        match wire s with
        | e :: w => if Nat.ltb (length (buf s (kind e))) cap
                    then {| todo := todo s; sent := sent s; wire := w; buf := upd_fun (buf s) (kind e) (buf s (kind e) ++ [e]);
                            delivered := delivered s |}
                    else s
        | [] => s
        end
    | Handoff =>
        match wire s with
        | e :: w => match buf s (kind e) with
                    | [] => {| todo := todo s; sent := sent s; wire := w; buf := buf s;
                               delivered := upd_fun (delivered s) (kind e) (delivered s (kind e) ++ [e]) |}
                    | _ => s
                    end
        | [] => s
        end
    | Dispatch k =>
        match buf s k with
        | e :: b => {| todo := todo s; sent := sent s; wire := wire s; buf := upd_fun (buf s) k b;
                       delivered := upd_fun (delivered s) k (delivered s k ++ [e]) |}
        | [] => s
        end
    end.

  Definition prun (cap : nat) (s : pst) (ls : list plabel) : pst := fold_left (pstep cap) ls s.
  Definition pinit (work : list (list E)) : pst :=
    {| todo := work; sent := []; wire := []; buf := fun _ => []; delivered := fun _ => [] |}.

  Definition of_kind (k : nat) (l : list E) : list E := filter (fun e => Nat.eqb (kind e) k) l.

  (* the invariant: per kind, what was sent is what was delivered, then what is buffered, then what is in flight *)
  Definition conserved (s : pst) : Prop :=
    forall k, of_kind k (sent s) = delivered s k ++ buf s k ++ of_kind k (wire s).
  Definition well_kinded (s : pst) : Prop := forall k e, In e (buf s k) -> kind e = k.
End Pipeline.
Arguments todo {E}. Arguments sent {E}. Arguments wire {E}. Arguments buf {E}. Arguments delivered {E}.
Arguments pop_nth {E}. Arguments upd_fun {E}. Arguments pinit {E}.
