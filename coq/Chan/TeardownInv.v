(* Preservation of the teardown invariant, label by label (continues TeardownFacts.v). *)
From Coq Require Import List Bool Arith Lia.
Import ListNotations.
From Lime Require Import Chan.Teardown Chan.TeardownFacts.

Ltac fin :=
  repeat match goal with
  | H : _ \/ _ |- _ => destruct H
  | H : _ /\ _ |- _ => destruct H
  | H : Some _ = Some _ |- _ => inversion H; subst; clear H
  | H : CHasSes _ = CHasSes _ |- _ => inversion H; subst; clear H
  | H : MTerm _ = MTerm _ |- _ => inversion H; subst; clear H
  | H : STerm _ = STerm _ |- _ => inversion H; subst; clear H
  | H : ?a = ?a -> _ |- _ => specialize (H eq_refl)
  | H : forall t', Some (MTerm ?x) = Some (MTerm t') -> _ |- _ => specialize (H x eq_refl)
  | H : forall t', CHasSes (MTerm ?x) = CHasSes (MTerm t') -> _ |- _ => specialize (H x eq_refl)
  end; try discriminate; try congruence; eauto.

Ltac conj := repeat match goal with |- _ /\ _ => split end.

Ltac solve_inv2 :=
  first
  [ left; reflexivity
  | right; unfold Told, Pending, Observed, Consistent, Pristine; cbn; try eexists; conj; intros;
    repeat match goal with H : _ \/ _ |- _ => destruct H end;
    first [ solve [fin]
          | solve [left; conj; intros; fin]
          | solve [right; conj; intros; fin] ] ].

Ltac step_rest2 :=
  unfold Inv, client_out; cbn; intros H;
  match type of H with match ?x with _ => _ end => destruct x end;
  unfold Told, Pending, Observed, Consistent, Pristine in H; cbn in H; unpack; subst;
  unfold_step; cbn; split_ifs; cbn; unfold upd_e, ep, wire_to, other, set_side, set_wire, push_eof; cbn;
  try solve_inv; try solve_inv2.

Ltac start :=
  intros [Hout|H]; [left; apply client_out_step; exact Hout|]; revert H.

Lemma inv_consume inproc s w : Inv inproc s -> Inv inproc (tstep inproc true s (TConsume w)).
Proof. start. destruct w; full_destruct s; step_rest2. Qed.

Lemma inv_client_finish inproc s : Inv inproc s -> Inv inproc (tstep inproc true s TClientFinish).
Proof. start. full_destruct s; step_rest2. Qed.

Lemma inv_client_close inproc s : Inv inproc s -> Inv inproc (tstep inproc true s TClientClose).
Proof. start. full_destruct s; step_rest2. Qed.

Lemma inv_server_end inproc s t : Inv inproc s -> Inv inproc (tstep inproc true s (TServerEnd t)).
Proof. start. full_destruct s; step_rest2. Qed.

Lemma inv_recv_sv inproc s : Inv inproc s -> Inv inproc (tstep inproc true s (TRecv Sv)).
Proof. start. full_destruct s; step_rest2. Qed.

Lemma inv_recv_cl inproc s : Inv inproc s -> Inv inproc (tstep inproc true s (TRecv Cl)).
Proof. start. full_destruct s; step_rest2. Qed.

Lemma inv_client_step inproc s : Inv inproc s -> Inv inproc (tstep inproc true s TClientStep).
Proof. start. full_destruct s; step_rest2. Qed.

Lemma inv_server_step inproc s : Inv inproc s -> Inv inproc (tstep inproc true s TServerStep).
Proof. start. full_destruct s; step_rest2. Qed.

Theorem inv_step inproc s l : Inv inproc s -> Inv inproc (tstep inproc true s l).
Proof.
  destruct l as [w|w|w| | | |t|].
  - apply inv_send.
  - destruct w; [apply inv_recv_cl | apply inv_recv_sv].
  - apply inv_consume.
  - apply inv_client_finish.
  - apply inv_client_step.
  - apply inv_client_close.
  - apply inv_server_end.
  - apply inv_server_step.
Qed.

Lemma inv_init inproc c a b : Inv inproc (tinit c a b).
Proof. right. cbn. unfold Pristine. cbn. intuition. Qed.

Theorem inv_run inproc ls s : Inv inproc s -> Inv inproc (trun inproc true s ls).
Proof. revert s; induction ls as [|l ls IH]; intros s H; cbn; auto. apply IH, inv_step, H. Qed.

