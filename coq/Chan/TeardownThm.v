(* The user-facing teardown theorems (continues TeardownAux.v). *)
From Coq Require Import List Bool Arith Lia.
Import ListNotations.
From Lime Require Import Chan.Teardown Chan.TeardownFacts Chan.TeardownInv Chan.TeardownAux.

Lemma aux_init c a b : Aux (tinit c a b).
Proof. unfold Aux; cbn. repeat split; try discriminate; auto. Qed.

Lemma aux_run inproc ls s : Aux s -> Aux (trun inproc true s ls).
Proof. revert s; induction ls as [|l ls IH]; intros s H; cbn; auto. apply IH, aux_step, H. Qed.

(* ---- what the peer observes ---- *)

(* Once the server has sent a terminal session envelope, a client that has not closed its
   channel on its own either has stored that terminal state or is about to: the envelope is
   on its way and the client's receiver is running, not cancelled, and able to reach it. *)
Theorem peer_observes inproc c a b ls t :
  let s := trun inproc true (tinit c a b) ls in
  client_out s = false -> sent_term s = Some t -> Observed s t \/ Pending inproc s t.
Proof.
  intros s Hout Hsent.
  pose proof (inv_run inproc ls (tinit c a b) (inv_init inproc c a b)) as H. fold s in H.
  destruct H as [H|H]; [congruence|].
  unfold sent_term in Hsent. destruct (sapp s) eqn:Sa; try discriminate.
  - inversion Hsent; subst. destruct H as [[Hp|Ho] _]; auto.
  - inversion Hsent; subst. destruct H as [_ [[Hp|Ho] _]]; auto.
  - destruct H as [t0 [Hs [[Hp|Ho] _]]]; rewrite Hs in Hsent; inversion Hsent; subst; auto.
  - destruct H as [t0 [Hs [[Hp|Ho] _]]]; rewrite Hs in Hsent; inversion Hsent; subst; auto.
Qed.

(* ... and while it is pending the client makes progress as long as its consumers drain the
   inbound streams: the receiver's next step, or a consumer's, lowers the measure *)
Theorem pending_progress inproc s t :
  Pending inproc s t ->
  tmeasure (tstep inproc true s (TRecv Cl)) < tmeasure s \/ tmeasure (tstep inproc true s (TConsume Cl)) < tmeasure s.
Proof.
  full_destruct s. unfold Pending. cbn. intros [-> [-> [-> [-> [H H']]]]].
  assert (Fin : forall X : tst -> Prop, True) by auto. clear Fin.
  destruct inproc.
  - destruct (H' eq_refl) as [-> | ->]; unfold_step; cbn; rewrite ?orb_true_r; cbn;
      (destruct cb as [|k]; cbn; [left; unfold tmeasure; cbn; lia|];
       destruct (Nat.leb_spec cbf cp); [left; unfold tmeasure; cbn; lia|];
       right; destruct cbf; [lia|]; unfold tmeasure; cbn; lia).
  - destruct (H eq_refl) as [-> ->]. unfold_step; cbn.
    destruct cb as [|k]; cbn; [left; unfold tmeasure; cbn; lia|].
    destruct (Nat.leb_spec cbf cp); [left; unfold tmeasure; cbn; lia|].
    right. destruct cbf; [lia|]. unfold tmeasure; cbn; lia.
Qed.

(* the serving goroutine always reaches the end of its termination sequence *)
Theorem server_progress inproc c a b ls :
  let s := trun inproc true (tinit c a b) ls in
  (match sapp s with SListen | SDone => False | _ => True end) ->
  tmeasure (tstep inproc true s TServerStep) < tmeasure s \/ tmeasure (tstep inproc true s (TRecv Sv)) < tmeasure s.
Proof.
  intros s Hs.
  pose proof (aux_run inproc ls (tinit c a b) (aux_init c a b)) as [A _]. fold s in A.
  revert Hs A. generalize s. clear. intros s. full_destruct s. cbn.
  destruct sa; try contradiction; intros _ A.
  - left. unfold_step; cbn. unfold tmeasure; cbn. lia.
  - subst. destruct src.
    + right. unfold_step; cbn. unfold tmeasure; cbn. lia.
    + left. unfold_step; cbn. unfold tmeasure; cbn. lia.
  - left. unfold_step; cbn. destruct sop, inproc, cop; unfold tmeasure; cbn; lia.
Qed.

(* ---- the end state ---- *)
(* no step other than a fresh send changes anything *)
Definition quiescent (inproc : bool) (s : tst) : Prop :=
  forall l, (match l with TSend _ | TClientFinish | TClientClose | TServerEnd _ => False | _ => True end) ->
  tstep inproc true s l = s.

(* When the server has ended the session and nothing moves any more, and the client has not
   closed its channel on its own: both sides are in the terminal state the server announced,
   both receivers have ended (so every inbound stream and both done signals are closed), and
   the server's connection was closed by its terminating call. *)
Theorem clean_end inproc c a b ls t :
  let s := trun inproc true (tinit c a b) ls in
  client_out s = false -> sent_term s = Some t -> quiescent inproc s ->
  e_state (cl s) = STerm t /\ e_state (sv s) = STerm t /\ e_rcv (cl s) = false /\ e_rcv (sv s) = false /\
  sapp s = SDone /\ e_open (sv s) = false.
Proof.
  intros s Hout Hsent Hq.
  pose proof (peer_observes inproc c a b ls t Hout Hsent) as Hobs. fold s in Hobs.
  pose proof (aux_run inproc ls (tinit c a b) (aux_init c a b)) as [A _]. fold s in A.
  pose proof (inv_run inproc ls (tinit c a b) (inv_init inproc c a b)) as HI. fold s in HI.
  assert (Hnp : ~ Pending inproc s t).
  { intros Hp. destruct (pending_progress inproc s t Hp) as [H|H].
    - rewrite (Hq (TRecv Cl) I) in H. lia.
    - rewrite (Hq (TConsume Cl) I) in H. lia. }
  destruct Hobs as [Ho|Hp]; [|contradiction].
  assert (Hsd : sapp s = SDone).
  { destruct (sapp s) eqn:Sa; auto; exfalso.
    - unfold sent_term in Hsent. rewrite Sa in Hsent. discriminate.
    - destruct (server_progress inproc c a b ls) as [H|H]; fold s; try (rewrite Sa; exact I);
        fold s in H; [rewrite (Hq TServerStep I) in H | rewrite (Hq (TRecv Sv) I) in H]; lia.
    - destruct (server_progress inproc c a b ls) as [H|H]; fold s; try (rewrite Sa; exact I);
        fold s in H; [rewrite (Hq TServerStep I) in H | rewrite (Hq (TRecv Sv) I) in H]; lia.
    - destruct (server_progress inproc c a b ls) as [H|H]; fold s; try (rewrite Sa; exact I);
        fold s in H; [rewrite (Hq TServerStep I) in H | rewrite (Hq (TRecv Sv) I) in H]; lia. }
  rewrite Hsd in A. destruct A as [A1 A2].
  assert (Hss : e_state (sv s) = STerm t).
  { unfold sent_term in Hsent. rewrite Hsd in Hsent. destruct (e_state (sv s)); congruence. }
  assert (Hrc : e_rcv (cl s) = false).
  { destruct (e_rcv (cl s)) eqn:R; auto. exfalso.
    pose proof (Hq (TRecv Cl) I) as H. unfold Observed in Ho.
    revert H Ho R. generalize s. clear. intros s. full_destruct s. cbn. intros H -> ->.
    revert H. unfold_step; cbn. destruct inproc, ccn; cbn; intros H; inversion H. }
  repeat split; auto.
Qed.

(* After the observing side has closed its channel nothing of the session is left on it:
   its receiver has ended and its connection is closed. *)
Theorem client_close_releases inproc s :
  e_rcv (cl s) = false -> (capp s = CRun \/ capp s = CFinished) ->
  let s' := trun inproc true s [TClientClose; TClientStep] in
  capp s' = CClosed /\ e_open (cl s') = false /\ e_rcv (cl s') = false.
Proof.
  full_destruct s. cbn. intros -> [-> | ->]; unfold_step; cbn; destruct cop, inproc, sop; cbn; auto.
Qed.

(* The client's own FinishSession closes its connection when it returns, and so does the
   server's terminating call (every reachable state). *)
Theorem initiator_closes inproc c a b ls :
  let s := trun inproc true (tinit c a b) ls in
  (capp s = CFinished -> e_open (cl s) = false /\ exists t, e_state (cl s) = STerm t) /\
  (sapp s = SDone -> e_open (sv s) = false /\ e_rcv (sv s) = false).
Proof.
  intros s. pose proof (aux_run inproc ls (tinit c a b) (aux_init c a b)) as [A [_ [_ [_ [B _]]]]]. fold s in A, B.
  split; [exact B|]. intros Hs. rewrite Hs in A. tauto.
Qed.

(* a terminal state is never left *)
Theorem terminal_is_final inproc s l :
  (e_state (cl s) <> SEst -> e_state (cl (tstep inproc true s l)) <> SEst) /\
  (e_state (sv s) <> SEst -> e_state (sv (tstep inproc true s l)) <> SEst).
Proof.
  full_destruct s. destruct l as [w|w|w| | | |t|]; try destruct w; unfold_step; cbn; split_ifs; cbn;
    unfold upd_e, ep, wire_to, other, set_side, set_wire, push_eof; cbn; split; intros H; try exact H; try discriminate;
    try (exfalso; apply H; reflexivity).
Qed.

(* ---- the in-process transport as found: the client can miss the terminal envelope ---- *)
Theorem as_found_inproc_misses_finished :
  exists ls, let s := trun true false (tinit 1 3 0) ls in
  lost s = true /\ sent_term s = Some TFinished /\ e_state (cl s) = SEst /\ e_rcv (cl s) = false /\ client_out s = false.
Proof.
  exists [TServerEnd TFinished; TServerStep; TRecv Sv; TServerStep; TServerStep; TRecv Cl].
  vm_compute. repeat split.
Qed.

Example fixed_same_schedule :
  let s := trun true true (tinit 1 3 0)
             ([TServerEnd TFinished; TServerStep; TRecv Sv; TServerStep; TServerStep] ++
              [TRecv Cl; TConsume Cl; TRecv Cl; TConsume Cl; TRecv Cl; TConsume Cl; TRecv Cl]) in
  lost s = false /\ e_state (cl s) = STerm TFinished /\ e_delivered (cl s) = 3 /\ e_rcv (cl s) = false.
Proof. vm_compute. repeat split. Qed.
