From Coq Require Import List Arith Bool Lia.
Import ListNotations.
From Lime Require Import Chan.Pipeline.

Section Facts.
  Variable E : Type.
  Variable kind : E -> nat.
  Notation pst := (pst E).
  Notation pstep := (pstep E kind).
  Notation prun := (prun E kind).
  Notation of_kind := (of_kind E kind).
  Notation conserved := (conserved E kind).
  Notation well_kinded := (well_kinded E kind).

  Lemma of_kind_app k a b : of_kind k (a ++ b) = of_kind k a ++ of_kind k b.
  Proof. unfold Pipeline.of_kind. apply filter_app. Qed.

  Lemma upd_same (f : nat -> list E) k v : upd_fun f k v k = v.
  Proof. unfold upd_fun. rewrite Nat.eqb_refl. reflexivity. Qed.
  Lemma upd_other (f : nat -> list E) k v k' : k' <> k -> upd_fun f k v k' = f k'.
  Proof. unfold upd_fun. intros H. apply Nat.eqb_neq in H. rewrite H. reflexivity. Qed.

  Lemma step_inv cap s l : conserved s /\ well_kinded s -> conserved (pstep cap s l) /\ well_kinded (pstep cap s l).
  Proof.
    intros [Hc Hw]. destruct l as [t| | |k]; unfold Pipeline.pstep.
    - destruct (pop_nth (todo s) t) as [[e todo']|]; [|auto]. split; [|exact Hw].
      intros k. cbn [Pipeline.sent Pipeline.wire Pipeline.buf Pipeline.delivered]. rewrite !of_kind_app, Hc, <- !app_assoc. reflexivity.
    - destruct (wire s) as [|e w] eqn:Ew; [auto|].
      destruct (Nat.ltb (length (buf s (kind e))) cap); [|auto]. split.
      + intros k. cbn [Pipeline.sent Pipeline.wire Pipeline.buf Pipeline.delivered]. specialize (Hc k). rewrite Ew in Hc. unfold Pipeline.of_kind in *. cbn [filter] in Hc.
        destruct (Nat.eqb (kind e) k) eqn:Ek.
        * apply Nat.eqb_eq in Ek. subst k. rewrite upd_same, Hc, <- !app_assoc. reflexivity.
        * apply Nat.eqb_neq in Ek. rewrite upd_other by congruence. exact Hc.
      + intros k x Hx. cbn [Pipeline.buf] in Hx. destruct (Nat.eq_dec k (kind e)) as [->|Hn].
        * rewrite upd_same in Hx. apply in_app_or in Hx. destruct Hx as [Hx|[<-|[]]]; auto.
        * rewrite upd_other in Hx by exact Hn. auto.
    - destruct (wire s) as [|e w] eqn:Ew; [auto|].
      destruct (buf s (kind e)) eqn:Eb; [|auto]. split; [|exact Hw].
      intros k. cbn [Pipeline.sent Pipeline.wire Pipeline.buf Pipeline.delivered]. specialize (Hc k). rewrite Ew in Hc. unfold Pipeline.of_kind in *. cbn [filter] in Hc.
      destruct (Nat.eqb (kind e) k) eqn:Ek.
      + apply Nat.eqb_eq in Ek. subst k. rewrite upd_same, Hc, Eb. cbn [app]. rewrite <- app_assoc. reflexivity.
      + apply Nat.eqb_neq in Ek. rewrite upd_other by congruence. exact Hc.
    - destruct (buf s k) as [|e b] eqn:Eb; [auto|]. split.
      + intros k'. cbn [Pipeline.sent Pipeline.wire Pipeline.buf Pipeline.delivered]. specialize (Hc k'). destruct (Nat.eq_dec k' k) as [->|Hn].
        * rewrite !upd_same, Hc, Eb, <- !app_assoc. reflexivity.
        * rewrite !upd_other by exact Hn. exact Hc.
      + intros k' x Hx. cbn [Pipeline.buf] in Hx. destruct (Nat.eq_dec k' k) as [->|Hn].
        * rewrite upd_same in Hx. apply Hw. rewrite Eb. right. exact Hx.
        * rewrite upd_other in Hx by exact Hn. auto.
  Qed.

  Lemma init_inv work : conserved (pinit work) /\ well_kinded (pinit work).
  Proof. split; [intros k; reflexivity|intros k e []]. Qed.

  (* C04: for every workload, buffer size, number of senders and schedule *)
  Theorem pipeline_conserved cap work ls : conserved (prun cap (pinit work) ls).
  Proof.
    assert (H : forall ls s, conserved s /\ well_kinded s -> conserved (prun cap s ls) /\ well_kinded (prun cap s ls)).
    { induction ls0 as [|l ls0 IH]; intros s Hs; cbn; auto. apply IH, step_inv, Hs. }
    apply H, init_inv.
  Qed.

  (* hence: what consumers saw of a kind is a prefix of what was sent of that kind, in sending order -
     nothing twice, nothing out of order, nothing that was not sent *)
  Corollary delivered_prefix cap work ls k :
    let s := prun cap (pinit work) ls in exists rest, of_kind k (sent s) = delivered s k ++ rest.
  Proof. intros s. exists (buf s k ++ of_kind k (wire s)). apply pipeline_conserved. Qed.

  (* and when nothing is buffered or in flight, everything sent was delivered *)
  Corollary quiescent_all_delivered cap work ls k :
    let s := prun cap (pinit work) ls in
    wire s = [] -> buf s k = [] -> delivered s k = of_kind k (sent s).
  Proof.
    intros s Hw Hb. pose proof (pipeline_conserved cap work ls k) as H. fold s in H.
    rewrite Hw, Hb in H. cbn in H. rewrite app_nil_r in H. auto.
  Qed.

  (* the global sending order restricted to one sender is that sender's own order *)
  (* progress: while something is in flight some step other than Send is enabled (no deadlock through
     zero- or one-slot buffers, as long as consumers are willing) *)
  Theorem pipeline_progress cap (s : pst) :
    wire s <> [] -> exists l, (l = RecvMove \/ l = Handoff \/ exists k, l = Dispatch k) /\ pstep cap s l <> s.
  Proof.
    intros Hw. destruct (wire s) as [|e w] eqn:Ew; [congruence|].
    destruct (buf s (kind e)) as [|x b] eqn:Eb.
    - exists Handoff. split; [auto|]. cbn. rewrite Ew, Eb. intros H. apply (f_equal (@Pipeline.wire E)) in H. cbn in H.
      rewrite Ew in H. apply (f_equal (@length E)) in H. cbn in H. lia.
    - exists (Dispatch (kind e)). split; [eauto|]. cbn. rewrite Eb. intros H.
      apply (f_equal (fun st => @Pipeline.buf E st (kind e))) in H. cbn in H. rewrite upd_same, Eb in H.
      apply (f_equal (@length E)) in H. cbn in H. lia.
  Qed.
End Facts.
