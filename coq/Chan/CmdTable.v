(* Model D, pending-command table: channel.processCommand, its deferred cleanup,
   trySubmitCommandResult and the receiver's fall-back to the response stream
   (channel.go), as a labelled transition system at the granularity of their
   critical sections.  A disabled label leaves the state unchanged, so every
   list of labels is a schedule. *)
From Coq Require Import List Arith Bool.
Import ListNotations.

Inductive pc := P0 | P1 | P2 | P3 | PDone.
(* P0 not started; P1 registered, about to send; P2 sent, waiting in select;
   P3 has its result, deferred cleanup pending; PDone returned *)

Definition resp := (nat * nat)%type.          (* command id, tag identifying this response *)

Inductive result := RNone | RResp (x : resp) | RCtx | RRejected.

Record req := { q_id : nat; q_pc : pc; q_slot : option resp; q_res : result }.

Inductive mpc := M0 | M1 (slot : nat) (x : resp).   (* receiver goroutine: idle / holding a matched response *)

Record st := {
  reqs : list req;                 (* the ProcessCommand calls, by index *)
  table : list (nat * nat);        (* processingCmds: command id |-> index of the request whose reply slot it is *)
  incoming : list resp;            (* response commands still on the wire, in arrival order *)
  matcher : mpc;
  stream : list resp;              (* responses surfaced on the response stream *)
  consumed : list resp             (* history: responses taken from the wire *)
}.

Inductive label :=
| Reg (r : nat) | SendReq (r : nat) | TakeResp (r : nat) | CtxEnd (r : nat) | Cleanup (r : nat)
| RLookup | RDeliver.

Fixpoint lookup (k : nat) (t : list (nat * nat)) : option nat :=
  match t with
  | [] => None
  | (k', v) :: t' => if Nat.eqb k k' then Some v else lookup k t'
  end.
Definition remove_key (k : nat) (t : list (nat * nat)) : list (nat * nat) :=
  filter (fun kv => negb (Nat.eqb (fst kv) k)) t.
Definition remove_entry (k v : nat) (t : list (nat * nat)) : list (nat * nat) :=
  filter (fun kv => negb (Nat.eqb (fst kv) k && Nat.eqb (snd kv) v)) t.

Fixpoint upd (l : list req) (i : nat) (f : req -> req) : list req :=
  match l, i with
  | [], _ => []
  | x :: l', O => f x :: l'
  | x :: l', S i' => x :: upd l' i' f
  end.
Definition get (l : list req) (i : nat) : option req := nth_error l i.

Definition set_pc (p : pc) (q : req) : req := {| q_id := q_id q; q_pc := p; q_slot := q_slot q; q_res := q_res q |}.
Definition set_res (p : pc) (x : result) (q : req) : req := {| q_id := q_id q; q_pc := p; q_slot := q_slot q; q_res := x |}.
Definition set_slot (x : resp) (q : req) : req := {| q_id := q_id q; q_pc := q_pc q; q_slot := Some x; q_res := q_res q |}.

Definition with_reqs (s : st) (l : list req) : st :=
  {| reqs := l; table := table s; incoming := incoming s; matcher := matcher s; stream := stream s; consumed := consumed s |}.
Definition with_table (s : st) (t : list (nat * nat)) : st :=
  {| reqs := reqs s; table := t; incoming := incoming s; matcher := matcher s; stream := stream s; consumed := consumed s |}.

Definition pc_eqb (a b : pc) : bool :=
  match a, b with P0, P0 | P1, P1 | P2, P2 | P3, P3 | PDone, PDone => true | _, _ => false end.

(* fixed = true: the repaired code (D16): the matcher looks up and deletes in one
   critical section; the deferred cleanup only removes its own entry *)
Definition step (fixed : bool) (s : st) (l : label) : st :=
  match l with
  | Reg r =>
      match get (reqs s) r with
      | Some q =>
          if pc_eqb (q_pc q) P0 then
            match lookup (q_id q) (table s) with
            | Some _ => with_reqs s (upd (reqs s) r (set_res PDone RRejected))     (* the command id is already in use *)
            | None => with_table (with_reqs s (upd (reqs s) r (set_pc P1))) ((q_id q, r) :: table s)
            end
          else s
      | None => s
      end
  | SendReq r =>
      match get (reqs s) r with
      | Some q => if pc_eqb (q_pc q) P1 then with_reqs s (upd (reqs s) r (set_pc P2)) else s
      | None => s
      end
  | TakeResp r =>
      match get (reqs s) r with
      | Some q =>
          if pc_eqb (q_pc q) P2 then
            match q_slot q with
            | Some x => with_reqs s (upd (reqs s) r (set_res P3 (RResp x)))
            | None => s
            end
          else s
      | None => s
      end
  | CtxEnd r =>
      match get (reqs s) r with
      | Some q => if pc_eqb (q_pc q) P2 then with_reqs s (upd (reqs s) r (set_res P3 RCtx)) else s
      | None => s
      end
  | Cleanup r =>
      match get (reqs s) r with
      | Some q =>
          if pc_eqb (q_pc q) P3 then
            with_table (with_reqs s (upd (reqs s) r (set_pc PDone)))
                       (if fixed then remove_entry (q_id q) r (table s) else remove_key (q_id q) (table s))
          else s
      | None => s
      end
  | RLookup =>
      match matcher s, incoming s with
      | M0, x :: rest =>
          match lookup (fst x) (table s) with
          | Some slot =>
              {| reqs := reqs s; table := if fixed then remove_key (fst x) (table s) else table s;
                 incoming := rest; matcher := M1 slot x; stream := stream s; consumed := consumed s ++ [x] |}
          | None =>
              {| reqs := reqs s; table := table s; incoming := rest; matcher := M0; stream := stream s ++ [x];
                 consumed := consumed s ++ [x] |}
          end
      | _, _ => s
      end
  | RDeliver =>
      match matcher s with
      | M1 slot x =>
          {| reqs := upd (reqs s) slot (set_slot x);
             table := if fixed then table s else remove_key (fst x) (table s);
             incoming := incoming s; matcher := M0; stream := stream s; consumed := consumed s |}
      | M0 => s
      end
  end.

Definition run (fixed : bool) (s : st) (ls : list label) : st := fold_left (step fixed) ls s.

Definition init (ids : list nat) (responses : list resp) : st :=
  {| reqs := map (fun i => {| q_id := i; q_pc := P0; q_slot := None; q_res := RNone |}) ids;
     table := []; incoming := responses; matcher := M0; stream := []; consumed := [] |}.

(* ---- the property, as predicates on states ---- *)
Definition waiting (q : req) : bool := pc_eqb (q_pc q) P1 || pc_eqb (q_pc q) P2.

(* (d) a registered, unanswered request keeps its table entry *)
Definition undisturbed (s : st) : Prop :=
  forall r q, get (reqs s) r = Some q -> waiting q = true -> q_slot q = None ->
              (forall x, matcher s <> M1 r x) -> lookup (q_id q) (table s) = Some r.
(* (a) a request completes only with a response bearing its own id *)
Definition own_response (s : st) : Prop :=
  forall r q x, get (reqs s) r = Some q -> q_res q = RResp x -> fst x = q_id q.
(* (e) nothing is left in the table once every call has returned *)
Definition no_leak (s : st) : Prop :=
  (forall r q, get (reqs s) r = Some q -> q_pc q = PDone \/ q_pc q = P0) -> table s = [].
