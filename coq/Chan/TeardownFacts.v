(* Proofs about Model D / Teardown (Chan/Teardown.v), repaired code, both kinds
   of transport, every schedule. *)
From Coq Require Import List Bool Arith Lia.
Import ListNotations.
From Lime Require Import Chan.Teardown.

(* ---- nothing sent before a closing is lost on the repaired in-process transport ---- *)
Lemma lost_step inproc s l : lost (tstep inproc true s l) = lost s.
Proof.
  unfold tstep, recv_step, close_transport, set_capp, set_sapp, set_side, set_wire, set_lost.
  destruct inproc; destruct l as [w|w|w| | | |t|]; try destruct w; cbn;
    repeat match goal with
    | |- context [if ?c then _ else _] => destruct c
    | |- context [match ?c with _ => _ end] => destruct c
    end; cbn; try rewrite andb_false_r; reflexivity.
Qed.

Theorem never_lost inproc ls s : lost (trun inproc true s ls) = lost s.
Proof. revert s; induction ls as [|l ls IH]; intros s; cbn [trun fold_left]; auto. fold (trun inproc true (tstep inproc true s l) ls). rewrite IH. apply lost_step. Qed.

(* ---- termination: every effective step, except a fresh send, lowers the measure ---- *)
Ltac split_ifs :=
  repeat (match goal with
  | |- context [negb ?c] => is_var c; destruct c
  | |- context [?a && _] => is_var a; destruct a
  | |- context [?a || _] => is_var a; destruct a
  | |- context [if ?c then _ else _] => is_var c; destruct c
  | |- context [match ?c with _ => _ end] => is_var c; destruct c
  | |- context [if ?c then _ else _] => destruct c eqn:?
  | |- context [match ?c with _ => _ end] => destruct c eqn:?
  end; cbn).

Lemma measure_step inproc s l :
  (match l with TSend _ => False | _ => True end) ->
  tstep inproc true s l = s \/ tmeasure (tstep inproc true s l) < tmeasure s.
Proof.
  intros Hl. destruct s as [C S wc ws cp ca sa lo].
  destruct C as [cst cop cbr ceo crc ccn cse cbf cdl], S as [sst sop sbr seo src scn sse sbf sdl].
  destruct wc as [cb cm caf cef], ws as [sb sm saf sef].
  destruct l as [w|w|w| | | |t|]; try contradiction; try destruct w;
    unfold tstep, recv_step, established, connected, tmeasure, set_side, set_wire, set_lost, set_capp, set_sapp, upd_e, ep,
           wire_to, other, close_transport, push_marker, push_eof, push_data; cbn;
    split_ifs; cbn; first [left; reflexivity | right; cbn; lia].
Qed.

(* ---- the main invariant, preserved by every step ---- *)
Definition Pending (inproc : bool) (s : tst) (t : term) : Prop :=
  w_marker (to_cl s) = MTerm t /\ e_rcv (cl s) = true /\ e_cancel (cl s) = false /\ e_state (cl s) = SEst /\
  (inproc = false -> e_open (cl s) = true /\ e_eofseen (cl s) = false) /\
  (inproc = true -> e_open (cl s) = true \/ e_byremote (cl s) = true).
Definition Observed (s : tst) (t : term) : Prop := e_state (cl s) = STerm t.
Definition Consistent (s : tst) (t : term) : Prop :=
  (forall t', e_ses (cl s) = Some (MTerm t') -> t' = t) /\ (forall t', capp s = CHasSes (MTerm t') -> t' = t).
Definition Told (inproc : bool) (s : tst) (t : term) : Prop := (Pending inproc s t \/ Observed s t) /\ Consistent s t.
Definition Pristine (s : tst) : Prop :=
  w_marker (to_cl s) = MNone /\ w_eof (to_cl s) = false /\ e_rcv (cl s) = true /\ e_cancel (cl s) = false /\
  e_state (cl s) = SEst /\ e_open (cl s) = true /\ e_eofseen (cl s) = false /\ e_ses (cl s) = None /\
  (capp s = CRun \/ capp s = CSentFinishing) /\
  e_state (sv s) = SEst /\ e_open (sv s) = true /\ e_eofseen (sv s) = false /\ w_eof (to_sv s) = false.

Definition Inv (inproc : bool) (s : tst) : Prop :=
  client_out s = true \/
  match sapp s with
  | SListen => Pristine s
  | SEnding t => Told inproc s t
  | SStopping t => e_state (sv s) = STerm t /\ Told inproc s t
  | SCloseT | SDone => exists t, e_state (sv s) = STerm t /\ Told inproc s t
  end.

Ltac full_destruct s :=
  destruct s as [C S wc ws cp ca sa lo];
  destruct C as [cst cop cbr ceo crc ccn cse cbf cdl], S as [sst sop sbr seo src scn sse sbf sdl];
  destruct wc as [cb cm caf cef], ws as [sb sm saf sef].

Ltac unfold_step :=
  unfold tstep, recv_step, established, connected, can_send, set_side, set_wire, set_lost, set_capp, set_sapp, upd_e, ep,
         wire_to, other, close_transport, push_marker, push_eof, push_data.

Lemma client_out_step inproc s l : client_out s = true -> client_out (tstep inproc true s l) = true.
Proof.
  unfold client_out. full_destruct s. cbn.
  destruct ca; try discriminate; intros _;
    destruct l as [w|w|w| | | |t|]; try destruct w; unfold_step; cbn; split_ifs; reflexivity.
Qed.

Ltac unpack :=
  repeat match goal with
  | H : _ /\ _ |- _ => destruct H
  | H : exists _, _ |- _ => destruct H
  end.

Ltac solve_inv :=
  first
  [ left; reflexivity
  | right; unfold Told, Pending, Observed, Consistent, Pristine; cbn;
    first [ solve [intuition (try congruence; try discriminate)]
          | eexists; solve [intuition (try congruence; try discriminate)] ] ].

Ltac step_rest :=
  unfold Inv, client_out; cbn; intros H;
  match type of H with match ?x with _ => _ end => destruct x end;
  unfold Told, Pending, Observed, Consistent, Pristine in H; cbn in H; unpack; subst;
  unfold_step; cbn; split_ifs; cbn; try solve_inv.

Lemma inv_send inproc s w : Inv inproc s -> Inv inproc (tstep inproc true s (TSend w)).
Proof.
  intros [Hout|H]; [left; apply client_out_step; exact Hout|]. revert H.
  destruct w; full_destruct s; step_rest.
Qed.
