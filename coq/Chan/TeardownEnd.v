(* The teardown of a session, put together: from any moment after the server has ended it, every way of scheduling the
   receivers, consumers and application goroutines reaches, in boundedly many steps, the clean end state. *)
From Coq Require Import List Bool Arith Lia.
Import ListNotations.
From Lime Require Import Base.Res Chan.Teardown Chan.TeardownFacts Chan.TeardownInv Chan.TeardownAux Chan.TeardownThm.

Definition internal (l : tlabel) : Prop :=
  match l with TSend _ | TClientFinish | TClientClose | TServerEnd _ => False | _ => True end.
Definition internals : list tlabel := [TRecv Cl; TRecv Sv; TConsume Cl; TConsume Sv; TClientStep; TServerStep].

Lemma internal_in l : internal l -> In l internals.
Proof. destruct l as [w|w|w| | | |t|]; try destruct w; cbn; intros H; try contradiction; tauto. Qed.
Lemma internal_not_send l : internal l -> match l with TSend _ => False | _ => True end.
Proof. destruct l; cbn; auto. Qed.

(* from any state, finitely many internal steps (at most the measure) lead to a state where nothing moves *)
Lemma reaches_quiescence inproc : forall n s, tmeasure s <= n ->
  exists ls, Forall internal ls /\ List.length ls <= n /\ quiescent inproc (trun inproc true s ls).
Proof.
  induction n as [|n IH]; intros s Hn.
  - exists []. split; [constructor|]. split; [cbn; lia|]. intros l Hl. cbn.
    destruct (measure_step inproc s l) as [H|H]; [destruct l; cbn in *; auto|exact H|lia].
  - assert (D : (forall l, In l internals -> tstep inproc true s l = s) \/
                (exists l, In l internals /\ tmeasure (tstep inproc true s l) < tmeasure s)).
    { unfold internals.
      assert (E : forall l, internal l -> tstep inproc true s l = s \/ tmeasure (tstep inproc true s l) < tmeasure s).
      { intros l Hl. apply measure_step. apply internal_not_send, Hl. }
      destruct (E (TRecv Cl) I) as [A1|A1]; [|right; eexists; split; [|exact A1]; cbn; tauto].
      destruct (E (TRecv Sv) I) as [A2|A2]; [|right; eexists; split; [|exact A2]; cbn; tauto].
      destruct (E (TConsume Cl) I) as [A3|A3]; [|right; eexists; split; [|exact A3]; cbn; tauto].
      destruct (E (TConsume Sv) I) as [A4|A4]; [|right; eexists; split; [|exact A4]; cbn; tauto].
      destruct (E TClientStep I) as [A5|A5]; [|right; eexists; split; [|exact A5]; cbn; tauto].
      destruct (E TServerStep I) as [A6|A6]; [|right; eexists; split; [|exact A6]; cbn; tauto].
      left. intros l [<-|[<-|[<-|[<-|[<-|[<-|[]]]]]]]; assumption. }
    destruct D as [Q|[l [Hin Hlt]]].
    + exists []. split; [constructor|]. split; [cbn; lia|]. intros l Hl. cbn. apply Q, internal_in, Hl.
    + destruct (IH (tstep inproc true s l)) as [ls [F [Hlen Hq]]]; [lia|].
      exists (l :: ls). split.
      * constructor; [|exact F]. unfold internals in Hin. cbn in Hin.
        destruct Hin as [<-|[<-|[<-|[<-|[<-|[<-|[]]]]]]]; exact I.
      * split; [cbn; lia|]. cbn. exact Hq.
Qed.

Lemma client_in_internal inproc s l : internal l -> client_out s = false -> client_out (tstep inproc true s l) = false.
Proof.
  unfold client_out. full_destruct s. cbn.
  destruct l as [w|w|w| | | |t|]; try destruct w; cbn; intros Hl; try contradiction; intros H;
    unfold_step; cbn; split_ifs; cbn; try assumption; try reflexivity; try discriminate.
Qed.

Lemma sent_term_internal inproc s l t :
  Inv inproc s -> client_out s = false -> sent_term s = Some t -> internal l ->
  sent_term (tstep inproc true s l) = Some t.
Proof.
  intros HI Hout Hs Hl. unfold Inv in HI. rewrite Hout in HI. destruct HI as [HI|HI]; [discriminate|].
  revert HI Hout Hs. unfold sent_term, client_out. full_destruct s. cbn.
  destruct sa as [|t0|t0| |]; cbn; intros HI Hout Hs; try discriminate;
    try (destruct HI as [HI1 HI2]); try (destruct HI as [t1 [HI1 HI2]]); subst;
    destruct l as [w|w|w| | | |t2|]; try destruct w; cbn in Hl; try contradiction;
    unfold_step; cbn; split_ifs; cbn; try assumption; try reflexivity; try congruence.
Qed.

Lemma preserved_along inproc ls : forall s t,
  Forall internal ls -> Inv inproc s -> client_out s = false -> sent_term s = Some t ->
  client_out (trun inproc true s ls) = false /\ sent_term (trun inproc true s ls) = Some t.
Proof.
  induction ls as [|l r IH]; intros s t F HI Ho Hs; cbn; [auto|].
  inversion F as [|? ? Hl Fr]; subst. apply IH; auto.
  - apply (inv_run inproc [l] s HI).
  - apply client_in_internal; auto.
  - apply sent_term_internal; auto.
Qed.

(* Once the server has ended a session and the client has not closed on its own: however the receivers,
   consumers and the two application goroutines are scheduled from there, after at most [tmeasure] of their steps
   nothing moves any more, and that state is the clean end - both sides in the announced terminal state, both
   receivers ended, the serving goroutine done, the server's connection closed.  (Every internal step lowers the
   measure or changes nothing, so no schedule can avoid this for ever.) *)
Theorem every_session_end_completes inproc c a b sched t :
  let s := trun inproc true (tinit c a b) sched in
  client_out s = false -> sent_term s = Some t ->
  exists ls, Forall internal ls /\ List.length ls <= tmeasure s /\
    let s' := trun inproc true s ls in
    quiescent inproc s' /\
    e_state (cl s') = STerm t /\ e_state (sv s') = STerm t /\ e_rcv (cl s') = false /\ e_rcv (sv s') = false /\
    sapp s' = SDone /\ e_open (sv s') = false.
Proof.
  intros s Ho Hs.
  destruct (reaches_quiescence inproc (tmeasure s) s (le_n _)) as [ls [F [Hlen Hq]]].
  exists ls. split; [exact F|]. split; [exact Hlen|]. cbn zeta. split; [exact Hq|].
  pose proof (inv_run inproc sched (tinit c a b) (inv_init inproc c a b)) as HI. fold s in HI.
  destruct (preserved_along inproc ls s t F HI Ho Hs) as [Ho' Hs'].
  assert (E : trun inproc true s ls = trun inproc true (tinit c a b) (sched ++ ls)).
  { unfold s, trun. rewrite fold_left_app. reflexivity. }
  rewrite E in *. apply (clean_end inproc c a b (sched ++ ls) t); assumption.
Qed.
