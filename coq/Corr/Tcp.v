(* Shared correspondence for the TCP byte-stream properties (C12, C16). *)
From Coq Require Import List Arith Bool.
Import ListNotations.
From Lime Require Import Base.Res Tcp.Writer Tcp.Reader.

Inductive case :=
(* sends of the given encodings (bytes) over a connection whose Write calls behave as the
   oracle says: what reached the wire, and what each Send reported *)
| CWrite (frames : list (list nat)) (oracle : list wstep) (o_wire : list nat) (o_oks : list bool)
(* a stream of frames of the given sizes read with the given limit; plan = what the
   connection's Read calls returned (as logged); n Receive calls: result and bytes taken
   from the connection by each, and Connected() at the end *)
| CRead (limit : nat) (sizes : list nat) (plan : list rstep) (n : nat)
        (o_res : list (rres * nat)) (o_connected : bool).

Definition rres_eqb (a b : rres) : bool :=
  match a, b with
  | RGotFrame i, RGotFrame j => Nat.eqb i j
  | RError, RError | RBlockedR, RBlockedR => true
  | _, _ => false
  end.
Fixpoint list_eqb {A} (eqb : A -> A -> bool) (a b : list A) : bool :=
  match a, b with
  | [], [] => true
  | x :: a', y :: b' => eqb x y && list_eqb eqb a' b'
  | _, _ => false
  end.

Definition agrees (c : case) : bool :=
  match c with
  | CWrite frames oracle wire oks =>
      let (w, o) := sends nat true frames oracle in
      list_eqb Nat.eqb wire w && list_eqb Bool.eqb oks o
  | CRead limit sizes plan n res conn =>
      let (r, st) := receives limit sizes (rinit limit) plan n in
      list_eqb (fun a b => rres_eqb (fst a) (fst b) && Nat.eqb (snd a) (snd b)) res r &&
      Bool.eqb conn (negb (rs_eof st))
  end.
Definition mismatches (cs : list case) : list nat := bad_indices agrees cs.

(* is a a prefix of b *)
Fixpoint prefixb (a b : list nat) : bool :=
  match a, b with
  | [], _ => true
  | x :: a', y :: b' => Nat.eqb x y && prefixb a' b'
  | _, [] => false
  end.
