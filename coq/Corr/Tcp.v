(* Shared correspondence for the TCP byte-stream properties (C12, C16). *)
From Coq Require Import List Arith Bool.
Import ListNotations.
From Lime Require Import Base.Res Tcp.Writer Tcp.Reader.

Inductive case :=
(* sends of the given encodings (bytes) over a connection whose Write calls behave as the
   oracle says: what reached the wire, and what each Send reported *)
| CWrite (frames : list (list nat)) (oracle : list wstep) (o_wire : list nat) (o_oks : list bool)
(* a stream of frames of the given sizes read with the given limit; plan = what the
   connection's Read calls returned (as logged); n Receive calls: result and bytes taken
   from the connection by each, and Connected() at the end *)
| CRead (limit : nat) (sizes : list nat) (plan : list rstep) (n : nat)
        (o_res : list (rres * nat)) (o_connected : bool)
(* a transport accepted by a real listener that was configured with the given read limit (0 = no configuration):
   what it reports as its limit (0 = the default, 8 MiB), and whether it accepted a frame of the given size sent
   behind [before] bytes of small frames over a loopback socket *)
| CAccepted (configured : nat) (reported : nat) (before size : nat) (accepted : bool).

Definition rres_eqb (a b : rres) : bool :=
  match a, b with
  | RGotFrame i, RGotFrame j => Nat.eqb i j
  | RError, RError | RBlockedR, RBlockedR => true
  | _, _ => false
  end.
Fixpoint list_eqb {A} (eqb : A -> A -> bool) (a b : list A) : bool :=
  match a, b with
  | [], [] => true
  | x :: a', y :: b' => eqb x y && list_eqb eqb a' b'
  | _, _ => false
  end.

Definition agrees (c : case) : bool :=
  match c with
  | CWrite frames oracle wire oks =>
      let (w, o) := sends nat true frames oracle in
      list_eqb Nat.eqb wire w && list_eqb Bool.eqb oks o
  | CRead limit sizes plan n res conn =>
      let (r, st) := receives limit sizes (rinit limit) plan n in
      list_eqb (fun a b => rres_eqb (fst a) (fst b) && Nat.eqb (snd a) (snd b)) res r &&
      Bool.eqb conn (negb (rs_eof st))
  | CAccepted conf rep before size acc =>
      (* how the socket chunks the stream is not observed: the model's verdict is compared where it does not
         depend on the chunking (within the limit: accepted; beyond twice the limit plus one: refused) *)
      Nat.eqb rep conf &&
      (if Nat.eqb conf 0 then true
       else if Nat.leb size conf then acc else if Nat.ltb (2 * conf + 1) size then negb acc else true)
  end.
Definition mismatches (cs : list case) : list nat := bad_indices agrees cs.

(* is a a prefix of b *)
Fixpoint prefixb (a b : list nat) : bool :=
  match a, b with
  | [], _ => true
  | x :: a', y :: b' => Nat.eqb x y && prefixb a' b'
  | _, [] => false
  end.

(* did the connection fail before it had delivered the whole stream *)
Fixpoint early_cut (plan : list rstep) (remaining : nat) : bool :=
  match plan with
  | [] => false
  | RChunk k :: p => early_cut p (remaining - k)
  | RStall :: p => early_cut p remaining
  | RCut :: _ | REof :: _ | RCtxDone :: _ => Nat.ltb 0 remaining
  end.
