(* Correspondence for C20: executable comparison of the implementation's
   observed dispatch behaviour with Model F and with the property's own
   specification (first matching handler / none; error stops the loop). *)
From Coq Require Import List Bool Arith.
Import ListNotations.
From Lime Require Import Base.Res Mux.Dispatch.

Definition cenv := (kind * nat)%type.          (* kind, envelope number *)
Definition ckind (e : cenv) : kind := fst e.

(* a handler as the harness registers it: predicate truth table indexed by
   envelope number (None = nil predicate) and handler outcome per envelope
   number (true = returns nil) *)
Definition thandler := (option (list bool) * list bool)%type.
Definition tbl_handler (h : thandler) : handler cenv :=
  {| h_pred := option_map (fun t (e : cenv) => nth (snd e) t false) (fst h);
     h_ok := fun e => nth (snd e) (snd h) true |}.

Inductive mode := MuxServer | RealServer | RealClient.

Record case := {
  c_mode : mode;
  c_msg : list thandler; c_not : list thandler; c_req : list thandler; c_resp : list thandler;
  c_seq : list cenv;
  (* observed on the implementation *)
  o_log : list (kind * nat * nat);     (* table kind, handler index, envelope number handed over *)
  o_stopped : bool;                    (* MuxServer: Listen returned an error; RealServer: client saw finished *)
}.

Definition case_mux (c : case) : mux cenv :=
  Build_mux (map tbl_handler (c_msg c)) (map tbl_handler (c_not c))
            (map tbl_handler (c_req c)) (map tbl_handler (c_resp c)).

Definition proj_log (l : list (inv cenv)) : list (kind * nat * nat) :=
  map (fun x => match x with (k, i, e) => (k, i, snd e) end) l.

(* the client's listener goroutine re-enters ListenClient after a handler
   error (client.go startListener), so on a Client every envelope is
   dispatched *)
Fixpoint listen_restart (m : mux cenv) (es : list cenv) : list (inv cenv) :=
  match es with
  | [] => []
  | e :: es' => map (fun i => (ckind e, i, e)) (fst (dispatch (table m (ckind e)) e)) ++ listen_restart m es'
  end.

(* ---- what the model says ---- *)
Definition model (c : case) : list (kind * nat * nat) * bool :=
  match c_mode c with
  | MuxServer => let (l, running) := listen ckind (case_mux c) (c_seq c) in (proj_log l, negb running)
  | RealServer => let (l, fin) := serve ckind (case_mux c) (c_seq c) in (proj_log l, fin)
  | RealClient => (proj_log (listen_restart (case_mux c) (c_seq c)), false)
  end.

(* ---- what the property says (independent of dispatch/listen) ---- *)
Definition spec_one (m : mux cenv) (e : cenv) : list (kind * nat * nat) * bool :=
  match first_match (table m (ckind e)) e with
  | Some i => ([(ckind e, i, snd e)],
               match nth_error (table m (ckind e)) i with Some h => h_ok h e | None => true end)
  | None => ([], true)
  end.
Fixpoint spec_seq (restart : bool) (m : mux cenv) (es : list cenv) : list (kind * nat * nat) * bool :=
  match es with
  | [] => ([], false)
  | e :: es' =>
      let (l, ok) := spec_one m e in
      if ok || restart then let (l', st) := spec_seq restart m es' in (l ++ l', st)
      else (l, true)
  end.
Definition spec (c : case) : list (kind * nat * nat) * bool :=
  spec_seq (match c_mode c with RealClient => true | _ => false end) (case_mux c) (c_seq c).

Definition inv_eqb (a b : kind * nat * nat) : bool :=
  match a, b with (k, i, e), (k', i', e') => kind_eqb k k' && Nat.eqb i i' && Nat.eqb e e' end.
Fixpoint list_eqb {A} (eqb : A -> A -> bool) (a b : list A) : bool :=
  match a, b with
  | [], [] => true
  | x :: a', y :: b' => eqb x y && list_eqb eqb a' b'
  | _, _ => false
  end.
Definition obs_eqb (a b : list (kind * nat * nat) * bool) : bool :=
  list_eqb inv_eqb (fst a) (fst b) && Bool.eqb (snd a) (snd b).

Definition obs (c : case) := (o_log c, o_stopped c).

(* the property, evaluated on an observation *)
Definition check (c : case) (o : list (kind * nat * nat) * bool) : bool := obs_eqb o (spec c).

Definition mismatches (cs : list case) : list nat := bad_indices (fun c => obs_eqb (obs c) (model c)) cs.
Definition violations (cs : list case) : list nat := bad_indices (fun c => check c (obs c)) cs.
