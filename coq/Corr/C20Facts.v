(* The model's behaviour meets the property's executable check on every case. *)
From Coq Require Import List Bool Arith Lia.
Import ListNotations.
From Lime Require Import Base.Res Mux.Dispatch Mux.DispatchFacts Corr.C20.

Lemma list_eqb_refl {A} (eqb : A -> A -> bool) (H : forall x, eqb x x = true) l : list_eqb eqb l l = true.
Proof. induction l as [|x l IH]; cbn; auto. rewrite H, IH. reflexivity. Qed.

Lemma kind_eqb_refl k : kind_eqb k k = true.
Proof. destruct k; reflexivity. Qed.

Lemma inv_eqb_refl x : inv_eqb x x = true.
Proof. destruct x as [[k i] e]. cbn. rewrite kind_eqb_refl, !Nat.eqb_refl. reflexivity. Qed.

Lemma obs_eqb_refl o : obs_eqb o o = true.
Proof. unfold obs_eqb. rewrite (list_eqb_refl _ inv_eqb_refl), Bool.eqb_reflx. reflexivity. Qed.

Lemma spec_one_eq m e :
  spec_one m e = (map (fun i => (ckind e, i, snd e)) (fst (dispatch (table m (ckind e)) e)),
                  snd (dispatch (table m (ckind e)) e)).
Proof.
  unfold spec_one, dispatch, first_match. rewrite dispatch_from_first.
  destruct (first_match_from 0 (table m (ckind e)) e); cbn; auto.
  rewrite Nat.sub_0_r. reflexivity.
Qed.

Lemma proj_log_app a b : proj_log (a ++ b) = proj_log a ++ proj_log b.
Proof. unfold proj_log. apply map_app. Qed.

Lemma proj_log_map (e : cenv) is :
  proj_log (map (fun i => (ckind e, i, e)) is) = map (fun i => (ckind e, i, snd e)) is.
Proof. unfold proj_log. rewrite map_map. reflexivity. Qed.

Lemma listen_spec m es :
  (let (l, running) := listen ckind m es in (proj_log l, negb running)) = spec_seq false m es.
Proof.
  induction es as [|e es IH]; cbn [listen spec_seq]; auto.
  rewrite spec_one_eq.
  destruct (dispatch (table m (ckind e)) e) as [is ok]; cbn [fst snd].
  destruct ok; cbn [orb].
  - destruct (listen ckind m es) as [l r]. rewrite <- IH. rewrite proj_log_app, proj_log_map. reflexivity.
  - rewrite proj_log_map. reflexivity.
Qed.

Lemma listen_restart_spec m es :
  (proj_log (listen_restart m es), false) = spec_seq true m es.
Proof.
  induction es as [|e es IH]; cbn [listen_restart spec_seq]; auto.
  rewrite spec_one_eq. cbn [fst snd]. rewrite orb_true_r.
  rewrite <- IH. rewrite proj_log_app, proj_log_map. reflexivity.
Qed.

Theorem model_spec c : model c = spec c.
Proof.
  unfold model, spec, serve. destruct (c_mode c).
  - apply listen_spec.
  - pose proof (listen_spec (case_mux c) (c_seq c)) as H.
    destruct (listen ckind (case_mux c) (c_seq c)) as [l r]. exact H.
  - apply listen_restart_spec.
Qed.

Theorem model_meets_check c : check c (model c) = true.
Proof. unfold check. rewrite model_spec. apply obs_eqb_refl. Qed.
