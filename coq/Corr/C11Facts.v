From Coq Require Import List Bool Ascii String ZArith Lia.
Import ListNotations.
From Lime Require Import Base.Str Base.Res Base.Json Codec.Types Codec.TextForms Codec.TextFormsFacts
  Codec.Doc Codec.DocFacts Codec.Envelope Codec.EnvelopeFacts Codec.Eqb Codec.Builders Codec.BuildersFacts
  Corr.Codec Corr.C11.
Open Scope string_scope.

Lemma addressed_reply e : addressed e (reply_env repaired e) = true.
Proof. unfold addressed. cbn. rewrite String.eqb_refl, !node_eqb_refl. reflexivity. Qed.

Lemma wire_ok e : wf_any cx0 e = true -> edepth e <= case_fuel -> wire e = Ok e.
Proof.
  intros Hw Hd. destruct (roundtrip_any cx0 case_fuel e Hw Hd) as (j & Hj & Hdj).
  unfold wire. rewrite Hj. exact Hdj.
Qed.

Lemma resp_fields_built b q d rsn : resp_fields b q d rsn (built_resp b q d rsn) = true.
Proof.
  unfold resp_fields, built_resp.
  destruct b; [|destruct d|]; cbn; rewrite addressed_reply, !String.eqb_refl; cbn; auto.
  - rewrite doc_eqb_refl, mt_eqb_refl. reflexivity.
  - apply option_eqb_refl, reason_eqb_refl.
Qed.

Theorem model_meets_check c : check (model_case c) = true.
Proof.
  destruct c as [b q d rsn o y|f m ev rsn o y|e o|q o]; cbn [model_case check].
  - rewrite resp_fields_built. cbn [andb].
    destruct (wf_request q && opt_all wf_doc d && opt_all wf_reason rsn && Nat.leb (doc_depth_opt d) case_fuel) eqn:H; auto.
    bools. apply Nat.leb_le in H0.
    rewrite wire_ok; [apply res_env_eqb_refl| |].
    + destruct b; [|destruct d as [x|]|]; cbn [built_resp].
      * apply (success_response_ok cx0 q H).
      * cbn in H2. apply (success_response_with_ok cx0 q x H H2).
      * apply (success_response_ok cx0 q H).
      * apply (failure_response_ok cx0 q rsn H H1).
    + destruct b; [|destruct d as [x|]|]; cbn; try lia. cbn in H0. exact H0.
  - unfold built_not. destruct f.
    + cbn. rewrite addressed_reply. cbn. rewrite (option_eqb_refl reason_eqb _ reason_eqb_refl). cbn.
      match goal with |- (if ?c then _ else _) = true => destruct c eqn:H; auto end. bools.
      rewrite wire_ok; [apply res_env_eqb_refl| |cbn; lia].
      apply (failed_notification_ok cx0 m rsn); assumption.
    + cbn. rewrite addressed_reply, String.eqb_refl. cbn.
      match goal with |- (if ?c then _ else _) = true => destruct c eqn:H; auto end. bools.
      rewrite wire_ok; [apply res_env_eqb_refl| |cbn; lia].
      apply (notification_ok cx0 m ev); assumption.
  - apply node_eqb_refl.
  - apply (resp_fields_built BSuccessWith q (Some DPing) None).
Qed.
