(* Correspondence and executable property check for C04.  Schedules are not
   controlled here (free-running stress), so the comparison with Model D's
   pipeline is an acceptor: is the observation a possible behaviour of the
   model?  By the model's invariant (Chan/PipelineFacts.v) the deliveries of
   one kind are the kind's envelopes in global sending order, and the global
   order extends every sender's own order; hence an observation is accepted iff,
   per kind and per sender, the deliveries are exactly that sender's envelopes
   of that kind in its order. *)
From Coq Require Import List Arith Bool.
Import ListNotations.
From Lime Require Import Base.Res Chan.Pipeline.

Record case := {
  w_work : list (list nat);                 (* per sender goroutine: the kinds of the envelopes it sends, in order *)
  o_delivered : list (list (nat * nat));    (* per kind: (sender, sequence number) in delivery order; a corrupted
                                               envelope is reported with an impossible sequence number *)
  o_overlap : bool                          (* two Write calls on the connection overlapped, or one carried
                                               something other than exactly one envelope (atomic-send assumption) *)
}.

(* positions in a sender's work list whose kind is k *)
Fixpoint positions (k : nat) (w : list nat) (i : nat) : list nat :=
  match w with
  | [] => []
  | x :: r => (if Nat.eqb x k then [i] else []) ++ positions k r (S i)
  end.
Fixpoint list_eqb (a b : list nat) : bool :=
  match a, b with
  | [], [] => true
  | x :: a', y :: b' => Nat.eqb x y && list_eqb a' b'
  | _, _ => false
  end.
Definition of_sender (t : nat) (l : list (nat * nat)) : list nat :=
  map snd (filter (fun p => Nat.eqb (fst p) t) l).

Definition kind_ok (c : case) (k : nat) : bool :=
  let d := nth k (o_delivered c) [] in
  forallb (fun p => Nat.ltb (fst p) (length (w_work c))) d &&
  forallb (fun t => list_eqb (of_sender t d) (positions k (nth t (w_work c) []) 0)) (seq 0 (length (w_work c))).

Definition check (c : case) : bool :=
  negb (o_overlap c) && kind_ok c 0 && kind_ok c 1 && kind_ok c 2 && kind_ok c 3.

Definition mismatches (cs : list case) : list nat := bad_indices check cs.
Definition violations (cs : list case) : list nat := bad_indices check cs.
