From Coq Require Import List Bool Ascii String ZArith Lia.
Import ListNotations.
From Lime Require Import Base.Str Base.Res Base.Json Codec.Types Codec.TextForms Codec.TextFormsFacts
  Codec.Doc Codec.DocFacts Codec.Envelope Codec.EnvelopeFacts Codec.StableFacts Codec.Eqb Corr.Codec Corr.C02.
Open Scope string_scope.

Lemma find_some_in {A} (f : A -> bool) l x : find f l = Some x -> In x l /\ f x = true.
Proof. apply find_some. Qed.

Lemma table_idem_sound t : table_idem t = true -> uri_idem (mk_cx t).
Proof.
  unfold table_idem, uri_idem. cbn [mk_cx cx_uri]. intros H s u Hs.
  unfold uri_oracle in Hs. destruct (find (fun kv => (fst kv =? s)%string) t) as [kv|] eqn:Ef.
  - apply find_some in Ef. destruct Ef as [Hin _]. rewrite forallb_forall in H. specialize (H kv Hin).
    rewrite Hs in H. destruct (uri_oracle t u) as [u'|] eqn:Eu; cbn in H; try discriminate.
    apply String.eqb_eq in H. subst. reflexivity.
  - injection Hs as <-. unfold uri_oracle. rewrite Ef. reflexivity.
Qed.

Lemma stable_typed cx k j :
  cx_fix cx = repaired -> uri_idem cx ->
  stable_ok (decode_typed cx case_fuel k j)
            (re_of cx (decode_typed cx case_fuel k) (decode_typed cx case_fuel k j)) = true.
Proof.
  intros Hfx Hi. destruct (decode_typed cx case_fuel k j) as [e| |] eqn:E; cbn; auto.
  - destruct (decode_typed_stable cx case_fuel k j e Hfx Hi E) as (j' & Hj & Hd).
    rewrite Hj. cbn. rewrite Hd. apply res_env_eqb_refl.
  - exfalso. eapply decode_typed_no_panic; eauto.
Qed.

Lemma stable_any cx j :
  cx_fix cx = repaired -> uri_idem cx ->
  stable_ok (decode_any cx case_fuel j) (re_of cx (decode_any cx case_fuel) (decode_any cx case_fuel j)) = true.
Proof.
  intros Hfx Hi. destruct (decode_any cx case_fuel j) as [e| |] eqn:E; cbn; auto.
  - destruct (decode_any_stable cx case_fuel j e Hfx Hi E) as (j' & Hj & Hd).
    rewrite Hj. cbn. rewrite Hd. apply res_env_eqb_refl.
  - exfalso. eapply decode_any_no_panic; eauto.
Qed.

Definition case_table_ok (c : case) : bool :=
  match c with CTree _ _ uris _ _ _ _ => table_idem uris | CBytes _ _ _ => true
               | CWs _ (Some (_, uris)) _ => table_idem uris | CWs _ None _ => true end.

Theorem model_meets_check c : case_table_ok c = true -> check (model_case c) = true.
Proof.
  destruct c as [dom j uris t y rt ry|n p u|dom [[j uris]|] r]; cbn [model_case check case_table_ok];
    [|reflexivity| |reflexivity].
  2:{ intros Ht. apply table_idem_sound in Ht.
      destruct (decode_any (mk_cx uris) case_fuel j) as [e| |] eqn:E; cbn; auto.
      exfalso. eapply (decode_any_no_panic (mk_cx uris)); eauto. }
  intros Ht. apply table_idem_sound in Ht. set (cx := mk_cx uris) in *.
  assert (Hfx : cx_fix cx = repaired) by reflexivity.
  rewrite stable_any by assumption. rewrite andb_true_r.
  unfold kinds. cbn [map List.length forall2b Nat.eqb].
  rewrite !stable_typed by assumption. reflexivity.
Qed.
