From Coq Require Import List Arith Bool.
Import ListNotations.
From Lime Require Import Base.Res Tcp.Writer Tcp.Reader Corr.Tcp.
Definition case := Corr.Tcp.case.

(* per Receive: at most [limit] bytes taken; a frame above 2*limit+1 is never returned;
   a frame within the limit is never rejected while the connection behaves (no cut before it) *)
Fixpoint c16_results (limit : nat) (sizes : list nat) (res : list (rres * nat)) (next : nat) (failed : bool) : bool :=
  match res with
  | [] => true
  | (r, taken) :: rest =>
      Nat.leb taken limit &&
      match r with
      | RGotFrame i => Nat.leb (nth i sizes 0) (2 * limit + 1) && c16_results limit sizes rest (S i) failed
      | RError => (failed || negb (Nat.leb (nth next sizes 0) limit) || Nat.leb (length sizes) next) &&
                  c16_results limit sizes rest next true
      | RBlockedR => c16_results limit sizes rest next failed
      end
  end.
Definition check (c : case) : bool :=
  match c with
  | CWrite _ _ _ _ => true
  | CRead limit sizes plan _ res _ =>
      (* when the connection was cut mid-stream only the per-receive bound and the upper bound are checked *)
      c16_results limit sizes res 0 (early_cut plan (total sizes))
  | CAccepted conf rep _ size acc =>
      Nat.eqb rep conf &&
      (if Nat.eqb conf 0 then true
       else if Nat.leb size conf then acc else if Nat.ltb (2 * conf + 1) size then negb acc else true)
  end.
Definition mismatches := Corr.Tcp.mismatches.
Definition violations (cs : list case) : list nat := bad_indices check cs.
