From Coq Require Import List Arith Bool.
Import ListNotations.
From Lime Require Import Base.Res Tcp.Writer Tcp.Reader Corr.Tcp.
Definition case := Corr.Tcp.case.

(* writer: the wire is the concatenation of the acknowledged encodings followed by a prefix
   of the one whose Send failed (if any), and no Send after a failed one succeeds; nothing duplicated, reordered or
   fabricated *)
Fixpoint wire_ok (frames : list (list nat)) (oks : list bool) (wire : list nat) : bool :=
  match oks, frames with
  | [], _ => match wire with [] => true | _ => false end
  | true :: oks', f :: frames' =>
      prefixb f wire && wire_ok frames' oks' (skipn (length f) wire)
  | false :: oks', f :: _ => prefixb wire f && forallb negb oks'
  | _ :: _, [] => false
  end.

(* reader: the receives yield frame 0, 1, 2, ... in order and, once one fails, only failures *)
Fixpoint results_ok (res : list (rres * nat)) (next : nat) (failed : bool) : bool :=
  match res with
  | [] => true
  | (RGotFrame i, _) :: r => negb failed && Nat.eqb i next && results_ok r (S next) false
  | (RError, _) :: r => results_ok r next true
  | (RBlockedR, _) :: r => results_ok r next failed
  end.

(* ... and as long as the connection delivers the stream (no cut, end of stream or context ending before all of it
   has arrived) and every frame fits the read limit, no receive of a frame fails, however much came before on the
   same connection *)
Definition no_error (res : list (rres * nat)) : bool :=
  forallb (fun r => match fst r with RError => false | _ => true end) res.

Definition check (c : case) : bool :=
  match c with
  | CWrite frames _ wire oks => wire_ok frames oks wire
  | CRead limit sizes plan _ res _ =>
      results_ok res 0 false &&
      (if negb (early_cut plan (total sizes)) && forallb (fun s => Nat.leb s limit) sizes
       then no_error (firstn (List.length sizes) res) else true)
  | CAccepted _ _ _ _ _ => true
  end.
Definition mismatches := Corr.Tcp.mismatches.
Definition violations (cs : list case) : list nat := bad_indices check cs.
