(* Pipelined peers against a real Server (shared by C09 and C10): a scripted case some of whose items were written in
   the same segment as the item before; Hs/Pipelined.v says what the session logic gets to see. *)
From Coq Require Import List Bool Arith String.
Import ListNotations.
From Lime Require Import Base.Res Hs.Types Hs.Server Hs.Monitor Hs.Pipelined Corr.HsServer Corr.HsChecks.
Open Scope string_scope.
Open Scope list_scope.

(* what a pipelined run is compared on: the session envelopes the server wrote (with the encryption they were
   read under) and the callbacks it made (with the encryption in force) *)
Definition pipe_proj (ob : obs) : list ev :=
  filter (fun e => match e with Sent s _ => negb (terminal (ss_state s)) | _ => false end) (ob_wire ob) ++
  filter (fun e => match e with AuthCall _ _ _ _ | RegCall _ _ | EstCb => true | _ => false end) (ob_calls ob).
Definition pipe_model (c : scase) (glued : list bool) : obs :=
  let ins := effective (k_conf c) (oracle_of c) [] (combine glued (k_script c)) in
  project (handle_channel s_repaired (k_conf c) (oracle_of c) ins).


Definition pipe_agrees (s : scase) (glued : list bool) : bool :=
  Nat.eqb (List.length glued) (List.length (k_script s)) &&
  evs_eqb (pipe_proj (k_obs s)) (pipe_proj (pipe_model s glued)).

(* [clear]: the identities whose credentials the peer wrote only in clear, before an upgrade that it then completed *)
Definition pipe_check (s : scase) (clear : list nat) : bool :=
  (* what was received in clear before the switch is never acted upon after it *)
  forallb (fun e => match e with
                    | AuthCall f _ _ _ | RegCall f _ => negb (existsb (Nat.eqb f) clear)
                    | _ => true end) (ob_calls (k_obs s)) &&
  (* and whatever is acted upon is looked at under the confirmed encryption *)
  match last_confirmed (ob_wire (k_obs s)) with
  | Some e => forallb (fun ev => match ev with AuthCall _ _ _ enc | RegCall _ enc => String.eqb enc e | _ => true end)
                      (ob_calls (k_obs s))
  | None => true
  end.
