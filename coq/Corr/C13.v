(* Correspondence for C13: a real Server (handleChannel, dispatch loop, deferred
   finish) and a real client channel / high-level Client end an established
   session in every way, with traffic in flight; observed after quiescence. *)
From Coq Require Import List Bool Arith.
Import ListNotations.
From Lime Require Import Base.Res Chan.Teardown.

Inductive initiator := IClientFinish | IServerFinish | IServerFail | IClientClose | IServerClose
  | ICrossFail.   (* the server fails the session while the client's FinishSession is between its send and its receive *)

(* an observation that the harness could not make is None and is not compared *)
Record tobs := {
  b_cl_state : option estate;  b_sv_state : option estate;
  b_cl_rcvdone : option bool;  b_sv_rcvdone : option bool;
  b_cl_streams : option bool;  b_sv_streams : option bool;      (* every inbound stream closed *)
  b_cl_conn : option bool;     b_sv_conn : option bool;         (* Transport.Connected() once things settled *)
  b_cl_conn_after : option bool;                                (* ... and after the client closed its channel *)
  b_delivered_cl : option nat;                                  (* envelopes the client's consumers received *)
  b_finished_cb : nat;                                          (* Finished callback invocations *)
  b_goroutines : nat                                            (* library goroutines left at the very end *)
}.

Record case := {
  k_inproc : bool;
  k_init : initiator;
  k_cap : nat;
  k_to_cl : nat;       (* envelopes sent to the client right before the terminal envelope *)
  k_to_sv : nat;       (* envelopes sent to the server right before / while the session ends *)
  o : tobs
}.

Definition round : list tlabel := [TRecv Cl; TConsume Cl; TRecv Sv; TConsume Sv; TClientStep; TServerStep].
Fixpoint rounds (n : nat) : list tlabel := match n with O => [] | S k => round ++ rounds k end.

Definition init_labels (i : initiator) : list tlabel :=
  match i with
  | IClientFinish | IClientClose => [TClientFinish]
  | IServerFinish | IServerClose => [TServerEnd TFinished]
  | IServerFail => [TServerEnd TFailed]
  | ICrossFail => [TServerEnd TFailed; TClientFinish]
  end.

Definition settled (c : case) : tst :=
  trun (k_inproc c) true (tinit (k_cap c) (k_to_cl c) (k_to_sv c))
       (init_labels (k_init c) ++ rounds (3 * (k_to_cl c + k_to_sv c) + 12)).
Definition closed_after (c : case) : tst :=
  trun (k_inproc c) true (settled c) [TClientClose; TClientStep; TRecv Sv].

Definition conn_of (inproc : bool) (e : endpoint) (w : wire) : bool := connected inproc true e w.

Definition model (c : case) : tobs :=
  let s := settled c in
  let s' := closed_after c in
  {| b_cl_state := Some (e_state (cl s)); b_sv_state := Some (e_state (sv s));
     b_cl_rcvdone := Some (negb (e_rcv (cl s))); b_sv_rcvdone := Some (negb (e_rcv (sv s)));
     b_cl_streams := Some (negb (e_rcv (cl s))); b_sv_streams := Some (negb (e_rcv (sv s)));
     b_cl_conn := Some (conn_of (k_inproc c) (cl s) (to_cl s)); b_sv_conn := Some (conn_of (k_inproc c) (sv s) (to_sv s));
     b_cl_conn_after := Some (conn_of (k_inproc c) (cl s') (to_cl s'));
     b_delivered_cl := Some (e_delivered (cl s));
     b_finished_cb := 1; b_goroutines := 0 |}.

Definition term_eqb (a b : term) : bool :=
  match a, b with TFinished, TFinished | TFailed, TFailed => true | _, _ => false end.
Definition estate_eqb (a b : estate) : bool :=
  match a, b with
  | SEst, SEst => true
  | STerm x, STerm y => term_eqb x y
  | _, _ => false
  end.
Definition opt_eqb {A} (eqb : A -> A -> bool) (obs mdl : option A) : bool :=
  match obs, mdl with
  | None, _ => true            (* not observed *)
  | Some x, Some y => eqb x y
  | Some _, None => false
  end.
Definition tobs_eqb (a b : tobs) : bool :=
  opt_eqb estate_eqb (b_cl_state a) (b_cl_state b) && opt_eqb estate_eqb (b_sv_state a) (b_sv_state b) &&
  opt_eqb Bool.eqb (b_cl_rcvdone a) (b_cl_rcvdone b) && opt_eqb Bool.eqb (b_sv_rcvdone a) (b_sv_rcvdone b) &&
  opt_eqb Bool.eqb (b_cl_streams a) (b_cl_streams b) && opt_eqb Bool.eqb (b_sv_streams a) (b_sv_streams b) &&
  opt_eqb Bool.eqb (b_cl_conn a) (b_cl_conn b) && opt_eqb Bool.eqb (b_sv_conn a) (b_sv_conn b) &&
  opt_eqb Bool.eqb (b_cl_conn_after a) (b_cl_conn_after b) &&
  opt_eqb Nat.eqb (b_delivered_cl a) (b_delivered_cl b) &&
  Nat.eqb (b_finished_cb a) (b_finished_cb b) && Nat.eqb (b_goroutines a) (b_goroutines b).

(* ---- the property on an observation, stated without the model ---- *)
Definition expected_term (i : initiator) : term := match i with IServerFail | ICrossFail => TFailed | _ => TFinished end.
Definition is_some_true (x : option bool) : bool := match x with Some b => b | None => true end.
Definition is_some_false (x : option bool) : bool := match x with Some b => negb b | None => true end.

Definition check (c : case) (ob : tobs) : bool :=
  let t := expected_term (k_init c) in
  (* both sides reach the terminal state that corresponds to the initiator's action *)
  opt_eqb estate_eqb (b_cl_state ob) (Some (STerm t)) && opt_eqb estate_eqb (b_sv_state ob) (Some (STerm t)) &&
  (* the done signals and all inbound streams of both sides are closed *)
  is_some_true (b_cl_rcvdone ob) && is_some_true (b_sv_rcvdone ob) &&
  is_some_true (b_cl_streams ob) && is_some_true (b_sv_streams ob) &&
  (* the initiator's connection is closed by the terminating call; the server's in every case *)
  is_some_false (b_sv_conn ob) &&
  (match k_init c with IClientFinish | IClientClose | ICrossFail => is_some_false (b_cl_conn ob) | _ => true end) &&
  (* once the observer has closed its channel nothing is left *)
  is_some_false (b_cl_conn_after ob) &&
  (* what was sent before the terminal envelope is delivered *)
  opt_eqb Nat.eqb (b_delivered_cl ob) (Some (k_to_cl c)) &&
  Nat.eqb (b_finished_cb ob) 1 && Nat.eqb (b_goroutines ob) 0.

Definition mismatches (cs : list case) : list nat := bad_indices (fun c => tobs_eqb (o c) (model c)) cs.
Definition violations (cs : list case) : list nat := bad_indices (fun c => check c (o c)) cs.
