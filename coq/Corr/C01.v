(* Correspondence and executable property check for C01. *)
From Coq Require Import List Bool Ascii String ZArith.
Import ListNotations.
From Lime Require Import Base.Str Base.Res Base.Json Codec.Types Codec.TextForms Codec.Doc Codec.Envelope
  Codec.EnvelopeFacts Codec.Eqb Codec.Registry Corr.Codec.
Open Scope string_scope.

Inductive case :=
(* an envelope value: Go's encoding (as a tree; None = Marshal failed), the
   typed decoder's result on it, the TCP receive path's result, and (when
   exercised) the WebSocket receive path's result *)
| CEnv (e : env) (uris : uri_table)
       (o_json : option json) (o_typed : res env) (o_any : res env) (o_ws : option (res env))
(* text forms: src = Some s when the value was produced by parsing s *)
| CNode (src : option string) (n : node) (o_str : string) (o_back : node)
| CIdent (src : option string) (nm dm : string) (o_str : string) (o_back : string * string)
| CMt (src : option string) (m : option mediatype) (o_str : string) (o_back : option mediatype)
| CUri (s : string) (o : option string) (o_back : option string)
(* the document registry: registrations of fresh media types and decodes of messages of those types, in one
   process; observed: the Go type class each decode produced, and whether its content encoded back to what came *)
| CRegistry (ops : list rop) (o_kinds : list rkind) (o_stable : list bool).

Definition model_json (e : env) : option json := res_json_opt (encode e).
Definition model_typed (cx : ctx) (e : env) : res env :=
  bind (encode e) (decode_typed cx case_fuel (kind_of e)).
Definition model_any (cx : ctx) (e : env) : res env :=
  bind (encode e) (decode_any cx case_fuel).

(* what the model says the implementation observes *)
Definition model_case (c : case) : case :=
  match c with
  | CEnv e uris _ _ _ ws =>
      let cx := mk_cx uris in
      CEnv e uris (model_json e) (model_typed cx e) (model_any cx e)
           (match ws with Some _ => Some (model_any cx e) | None => None end)
  | CNode src n _ _ =>
      let n' := match src with Some s => parse_node s | None => n end in
      CNode src n' (node_str n') (parse_node (node_str n'))
  | CIdent src nm dm _ _ =>
      let p := match src with Some s => parse_identity s | None => (nm, dm) end in
      CIdent src (fst p) (snd p) (identity_str (fst p) (snd p)) (parse_identity (identity_str (fst p) (snd p)))
  | CMt src m _ _ =>
      let m' := match src with Some s => parse_mt repaired s | None => m end in
      let str := match m' with Some x => mt_str x | None => "" end in
      CMt src m' str (match m' with Some _ => parse_mt repaired str | None => None end)
  | CUri s o _ => CUri s o o                     (* net/url is not modelled; assumed law: a parsed URI's text parses to itself *)
  | CRegistry ops _ st => CRegistry ops (rrun [] ops) (map (fun _ => true) st)
  end.

Definition pair_str_eqb := pair_eqb String.eqb String.eqb.
Definition rkind_eqb (a b : rkind) : bool :=
  match a, b with
  | RkCustom x, RkCustom y => Nat.eqb x y
  | RkJson, RkJson | RkText, RkText => true
  | _, _ => false
  end.
Definition opt_json_eqb := option_eqb json_eqb.
Definition opt_mt_eqb := option_eqb mt_eqb.
Definition opt_str_eqb := option_eqb String.eqb.

Definition case_eqb (a b : case) : bool :=
  match a, b with
  | CEnv _ _ j t y w, CEnv _ _ j' t' y' w' =>
      opt_json_eqb j j' && res_env_eqb t t' && res_env_eqb y y' && option_eqb res_env_eqb w w'
  | CNode _ n s b, CNode _ n' s' b' => node_eqb n n' && String.eqb s s' && node_eqb b b'
  | CIdent _ x y s b, CIdent _ x' y' s' b' =>
      String.eqb x x' && String.eqb y y' && String.eqb s s' && pair_str_eqb b b'
  | CMt _ m s b, CMt _ m' s' b' => opt_mt_eqb m m' && String.eqb s s' && opt_mt_eqb b b'
  | CUri _ o b, CUri _ o' b' => opt_str_eqb o o' && opt_str_eqb b b'
  | CRegistry _ k s, CRegistry _ k' s' => list_eqb rkind_eqb k k' && list_eqb Bool.eqb s s'
  | _, _ => false
  end.

(* every decode after a registration of its type yields the registered type (and no decode yields a type that
   was not registered) *)
Fixpoint registry_ok (ops : list rop) (k : list rkind) (reg : list nat) : bool :=
  match ops, k with
  | [], [] => true
  | RRegister t :: r, _ => registry_ok r k (t :: reg)
  | RDecode t _ :: r, x :: k' =>
      (if existsb (Nat.eqb t) reg then rkind_eqb x (RkCustom t) else negb (rkind_eqb x (RkCustom t))) &&
      registry_ok r k' reg
  | _, _ => false
  end.

(* the property, evaluated on a case's observations *)
Definition check (c : case) : bool :=
  match c with
  | CEnv e uris _ t y w =>
      let cx := mk_cx uris in
      let fits := Nat.leb (edepth e) case_fuel in
      (if wf_env cx e && fits then res_env_eqb t (Ok e) else true) &&
      (if wf_any cx e && fits
       then res_env_eqb y (Ok e) && match w with Some r => res_env_eqb r (Ok e) | None => true end
       else true)
  | CNode src n _ b =>
      if (match src with Some _ => true | None => false end) || wf_node n then node_eqb b n else true
  | CIdent src nm dm _ b =>
      if (match src with Some _ => true | None => false end) ||
         (negb (has_char c_at nm) && negb (has_char c_at dm))
      then pair_str_eqb b (nm, dm) else true
  | CMt src m _ b =>
      match m with
      | Some x => if (match src with Some _ => true | None => false end) || wf_mt x
                  then opt_mt_eqb b (Some x) else true
      | None => true
      end
  | CUri _ o b => match o with Some u => opt_str_eqb b (Some u) | None => true end
  | CRegistry ops k st => forallb (fun b => b) st && registry_ok ops k []
  end.

Definition mismatches (cs : list case) : list nat := bad_indices (fun c => case_eqb c (model_case c)) cs.
Definition violations (cs : list case) : list nat := bad_indices check cs.
