(* Correspondence and executable property check for C08 (and the client half
   of C09): scripted raw servers against the real ClientChannel.EstablishSession. *)
From Coq Require Import List Bool Arith String.
Import ListNotations.
From Lime Require Import Base.Res Hs.Types Hs.Client Hs.ClientBuilder.
Open Scope string_scope.
Open Scope list_scope.

Inductive oout := ORet (s : state) | OErr | OBlocked | OPanic.
Record cobs := {
  co_trace : list cev;      (* USent (read by the scripted server, with the encryption it was read under) and UTook, interleaved *)
  co_out : oout;
  co_state : state; co_sid : string; co_local : nat; co_remote : nat;
  co_closed : bool;         (* the client closed its connection *)
  co_est : bool;            (* Established() *)
  co_client_panic : bool;   (* the high-level Client panicked while establishing over this script *)
  co_client : option bool   (* when run: the high-level Client, whose transport factory plays this script on every
                               connection, published a channel (Establish returned nil within its deadline) *)
}.
Record ccase := { q_conf : cdesc; q_script : list sin; q_obs : cobs }.
Definition case := ccase.

Definition is_obs_ev (e : cev) : bool := match e with USent _ _ | UTook _ => true | _ => false end.
Definition project (r : result) : cobs :=
  let '(t, c, out) := r in
  {| co_trace := filter is_obs_ev t;
     co_out := match out with CRet s => ORet (vs_state s) | CErr => OErr | CBlocked => OBlocked | CPanic => OPanic end;
     co_state := uc_state c; co_sid := uc_sid c; co_local := uc_local c; co_remote := uc_remote c;
     co_closed := existsb (fun e => match e with UClosed => true | _ => false end) t;
     co_est := state_eqb (uc_state c) SEstablished && uc_conn c;
     (* Client.buildChannel: a channel is published only if EstablishSession returned an established session *)
     co_client_panic := false;
     co_client := Some (match out with CRet s => state_eqb (vs_state s) SEstablished | _ => false end) |}.
Definition model_obs (c : ccase) : cobs := project (cestablish c_repaired (conf_of (q_conf c)) (q_script c)).

(* ---- equality ---- *)
Fixpoint list_eqb {A} (eqb : A -> A -> bool) (a b : list A) : bool :=
  match a, b with
  | [], [] => true
  | x :: a', y :: b' => eqb x y && list_eqb eqb a' b'
  | _, _ => false
  end.
Definition opt_nat_eqb (a b : option nat) : bool :=
  match a, b with Some x, Some y => Nat.eqb x y | None, None => true | _, _ => false end.
Definition strs_eqb := list_eqb String.eqb.
Definition vses_eqb (a b : vses) : bool :=
  state_eqb (vs_state a) (vs_state b) && String.eqb (vs_id a) (vs_id b) && Nat.eqb (vs_from a) (vs_from b) &&
  Nat.eqb (vs_to a) (vs_to b) && strs_eqb (vs_encopts a) (vs_encopts b) && strs_eqb (vs_compopts a) (vs_compopts b) &&
  strs_eqb (vs_schemeopts a) (vs_schemeopts b) && String.eqb (vs_enc a) (vs_enc b) && String.eqb (vs_comp a) (vs_comp b) &&
  opt_nat_eqb (vs_round a) (vs_round b).
Definition sin_eqb (a b : sin) : bool :=
  match a, b with
  | VSes x, VSes y => vses_eqb x y
  | VData, VData | VBad, VBad | VEof, VEof => true
  | _, _ => false
  end.
Definition usent_eqb (a b : usent) : bool :=
  state_eqb (us_state a) (us_state b) && String.eqb (us_id a) (us_id b) && String.eqb (us_enc a) (us_enc b) &&
  String.eqb (us_comp a) (us_comp b) && String.eqb (us_scheme a) (us_scheme b) && opt_nat_eqb (us_cred a) (us_cred b) &&
  Nat.eqb (us_from a) (us_from b).
Definition cev_eqb (a b : cev) : bool :=
  match a, b with
  | USent s e, USent s' e' => usent_eqb s s' && String.eqb e e'
  | UTook i, UTook i' => sin_eqb i i'
  | USetEnc x o, USetEnc x' o' | USetComp x o, USetComp x' o' => String.eqb x x' && Bool.eqb o o'
  | UClosed, UClosed => true
  | _, _ => false
  end.
Definition oout_eqb (a b : oout) : bool :=
  match a, b with
  | ORet s, ORet s' => state_eqb s s'
  | OErr, OErr | OBlocked, OBlocked | OPanic, OPanic => true
  | _, _ => false
  end.
Definition cobs_eqb (a b : cobs) : bool :=
  list_eqb cev_eqb (co_trace a) (co_trace b) && oout_eqb (co_out a) (co_out b) &&
  match co_out a with
  | OBlocked => true     (* a waiting client is released by the harness; its final fields are not compared *)
  | _ => state_eqb (co_state a) (co_state b) && String.eqb (co_sid a) (co_sid b) && Nat.eqb (co_local a) (co_local b) &&
         Nat.eqb (co_remote a) (co_remote b) && Bool.eqb (co_closed a) (co_closed b) && Bool.eqb (co_est a) (co_est b)
  end &&
  Bool.eqb (co_client_panic a) (co_client_panic b) &&
  match co_client a, co_client b with
  | None, _ => true
  | Some x, Some y => Bool.eqb x y
  | Some _, None => false
  end.

(* ---- the property on an observation ---- *)
(* walk the trace: [last] = the latest server session envelope taken, [fresh] = no client envelope since *)
Fixpoint c08_walk (t : list cev) (first : bool) (last : option vses) (fresh : bool) : bool :=
  match t with
  | [] => true
  | UTook (VSes s) :: r => c08_walk r first (Some s) true
  | UTook _ :: r => c08_walk r first last fresh
  | USent u _ :: r =>
      (* (c) after the first envelope every envelope echoes the id of the server's latest session envelope *)
      (if first then true else match last with Some s => String.eqb (us_id u) (vs_id s) | None => false end) &&
      (* (d) credentials only as the direct answer to an authentication request *)
      (match us_cred u with
       | Some _ => match last with Some s => fresh && state_eqb (vs_state s) SAuthenticating | None => false end
       | None => true
       end) &&
      c08_walk r false last false
  | _ :: r => c08_walk r first last fresh
  end.
Fixpoint last_taken (t : list cev) (acc : option sin) : option sin :=
  match t with
  | [] => acc
  | UTook i :: r => last_taken r (Some i)
  | _ :: r => last_taken r acc
  end.

Definition check (c : ccase) : bool :=
  let ob := q_obs c in
  (* (a) never a panic *)
  negb (oout_eqb (co_out ob) OPanic) && negb (co_client_panic ob) &&
  c08_walk (co_trace ob) true None false &&
  match co_out ob with
  | OBlocked => true
  | _ =>
      (* (b) established is reported only when the server's last word was established, with its id and nodes *)
      (* (what EstablishSession returns is what Client.buildChannel goes by; a channel object whose call
         returned an error is discarded by the caller whatever its internal state) *)
      (if oout_eqb (co_out ob) (ORet SEstablished) then
         match last_taken (co_trace ob) None with
         | Some (VSes s) => state_eqb (vs_state s) SEstablished && String.eqb (co_sid ob) (vs_id s) &&
                            Nat.eqb (co_local ob) (vs_to s) && Nat.eqb (co_remote ob) (vs_from s)
         | _ => false
         end
       else true) &&
      (* (e) the connection is closed when the server's last word was finished or failed *)
      (match last_taken (co_trace ob) None with
       | Some (VSes s) => if terminal (vs_state s) then co_closed ob else true
       | _ => true
       end)
  end &&
  (* the high-level client publishes a channel only for a session the server established *)
  match co_client ob with
  | Some true => oout_eqb (co_out ob) (ORet SEstablished)
  | _ => true
  end.

Definition mismatches (cs : list ccase) : list nat := bad_indices (fun c => cobs_eqb (q_obs c) (model_obs c)) cs.
Definition violations (cs : list ccase) : list nat := bad_indices check cs.
