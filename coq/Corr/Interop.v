(* Correspondence for the joint run of Models B and C (Hs/Interop.v): a real ClientChannel.EstablishSession
   against a real Server; what both ends hold afterwards is compared with the joint run computed by [play]. *)
From Coq Require Import List Bool Arith String.
Import ListNotations.
From Lime Require Import Base.Res Hs.Types Hs.Server Hs.Client Hs.ClientBuilder Hs.Interop Corr.HsServer.
(* (case files also use Corr.Builder's built_conf / built_oracle for servers made by a ServerBuilder) *)
Open Scope string_scope.
Open Scope list_scope.

Inductive iout := IRet (s : state) | IErr | IBlocked | IPanic.
Record icase := {
  i_sconf : sconf;
  i_oracle : oracle;        (* the server's callbacks: tables (auth_of / reg_of) or what a ServerBuilder installed *)
  i_cdesc : cdesc;
  i_ident : nat;            (* the identity the client presents *)
  i_wire : bool;            (* envelopes cross the connection as JSON text *)
  i_snode : nat;
  (* observed *)
  i_out : iout;             (* how the client's EstablishSession ended *)
  i_srv_est : bool;         (* the server's Established callback ran *)
  i_sid_eq : bool;          (* ... and was handed the session id the client holds *)
  i_srv_remote : nat; i_cli_local : nat; i_cli_remote : nat;
  i_srv_enc : string; i_cli_enc : string
}.

Definition rounds := 12.
Definition i_cconf (c : icase) : cconf :=
  let d := conf_of (i_cdesc c) in
  {| cc_comp_sel := cc_comp_sel d; cc_enc_sel := cc_enc_sel d; cc_auth := cc_auth d; cc_identity := i_ident c;
     cc_kind := cc_kind d; cc_tls_ok := cc_tls_ok d |}.
Definition joint (c : icase) : list cin :=
  play (i_wire c) (i_snode c) (i_sconf c) (i_oracle c) (i_cconf c) rounds [].
(* the joint run is complete: one more round adds nothing *)
Definition stable (c : icase) : bool :=
  list_eqb cin_eqb (joint c)
    (round (i_wire c) (i_snode c) (i_sconf c) (i_oracle c) (i_cconf c) (joint c)).
Definition model_ends (c : icase) : ends :=
  ends_of (i_wire c) (i_snode c) (i_sconf c) (i_oracle c) (i_cconf c) (joint c).
Definition model_out (c : icase) : iout :=
  match snd (client_on (i_cconf c)
               (s_out (i_wire c) (i_snode c) (rr_trace (server_on (i_sconf c) (i_oracle c) (joint c))))) with
  | CRet s => IRet (vs_state s) | CErr => IErr | CBlocked => IBlocked | CPanic => IPanic
  end.
(* the client's call ended: established / not established (an error, or a failed or finished session handed back:
   which of the two depends on whether closing the connection after the server's last word still succeeds, and
   that depends on who closes first) / still waiting / panicked *)
Definition iout_class (a : iout) : nat :=
  match a with
  | IRet SEstablished => 0
  | IRet _ | IErr => 1
  | IBlocked => 2
  | IPanic => 3
  end.
Definition iout_eqb (a b : iout) : bool := Nat.eqb (iout_class a) (iout_class b).
Definition both_established (c : icase) : bool :=
  i_srv_est c && match i_out c with IRet SEstablished => true | _ => false end.

Definition interop_agrees (c : icase) : bool :=
  let e := model_ends c in
  stable c && iout_eqb (i_out c) (model_out c) && Bool.eqb (i_srv_est c) (e_server_established e) &&
  (if both_established c
   then i_sid_eq c && String.eqb (e_client_sid e) (e_server_sid e) &&
        opt_nat_eqb (Some (i_srv_remote c)) (e_server_remote e) && Nat.eqb (i_cli_local c) (e_client_local e) &&
        Nat.eqb (i_cli_remote c) (e_client_remote e) &&
        String.eqb (i_srv_enc c) (e_server_enc e) && String.eqb (i_cli_enc c) (e_client_enc e)
   else true).
(* what C09 says about the two ends of one established session: the same session, under the same encryption, which
   is one the server was configured to offer; the client is the node the server registered *)
Definition interop_check (c : icase) : bool :=
  if both_established c
  then i_sid_eq c && String.eqb (i_srv_enc c) (i_cli_enc c) && Nat.eqb (i_srv_remote c) (i_cli_local c) &&
       (mem (i_srv_enc c) (sc_enc (i_sconf c)) || String.eqb (i_srv_enc c) (initial_enc (sc_kind (i_sconf c))))
  else true.
