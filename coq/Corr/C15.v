(* Correspondence for C15: every blocking operation is started against a silent
   or non-reading peer under a context that ends (deadline or cancellation) at a
   known time, or with the awaited event happening at a known time; the measured
   return time is compared with the model's (within a tolerance: this is the one
   correspondence that is not an exact equality). Times in milliseconds from the
   start of the operation. *)
From Coq Require Import ZArith List Bool.
Import ListNotations.
From Lime Require Import Base.Res Life.Timing.
Open Scope Z_scope.

Record case := {
  k_kind : tkind;
  k_op : opkind;
  k_ctx : ctxend;
  k_ev : option Z;        (* when the peer does what the operation waits for; None = never *)
  k_phase : Z;            (* server finish over TCP: how far the own receiver's current poll was from its end *)
  k_tls : bool;           (* the TCP connection was upgraded to TLS before the operation *)
  o_returned : bool;      (* the operation returned within the harness's patience *)
  o_ms : Z;               (* ... after that many milliseconds *)
  o_ctxerr : bool         (* ... with an error wrapping the context's error *)
}.

Definition tolerance : Z := 450.

Definition model (c : case) : option (Z * tres) := run_op true (k_kind c) (k_op c) (k_ctx c) (k_ev c) (k_phase c) 0 200.

Definition near (a b : Z) : bool := Z.leb (Z.abs (a - b)) tolerance.

(* a Send over a connection upgraded to TLS: the write loop does not go round after a timeout *)
Definition tls_send (c : case) : bool :=
  k_tls c && match k_kind c, k_op c with KTcp, OpSend => true | _, _ => false end.

Definition agrees (c : case) : bool :=
  if tls_send c then
    let (r, res) := tls_write tcp_poll (k_ctx c) (k_ev c) 0 in
    o_returned c && near (o_ms c) r && Bool.eqb (o_ctxerr c) (match res with WCtx => true | _ => false end)
  else
  match model c with
  | Some (r, res) =>
      o_returned c && near (o_ms c) r &&
      Bool.eqb (o_ctxerr c) (match res with TCtxErr => true | TOk => false end)
  | None => negb (o_returned c)
  end.

(* ---- the property on an observation: once the context has ended the operation returns -
   promptly at a deadline, within the transport's poll interval after a cancellation ---- *)
Definition poll_of (k : tkind) : Z := match k with KTcp => tcp_poll | _ => 0 end.
Definition check (c : case) : bool :=
  match ctx_time (k_ctx c) with
  | None => true
  | Some t =>
      let extra := match k_ctx c with CCancel _ => poll_of (k_kind c) | _ => 0 end in
      o_returned c && Z.leb (o_ms c) (Z.max 0 t + extra + tolerance) &&
      (* an operation that reports success did get its event before the bound; one that fails after the
         context ended says so *)
      (if o_ctxerr c then Z.leb t (o_ms c + tolerance) else true)
  end.

Definition mismatches (cs : list case) : list nat := bad_indices agrees cs.
Definition violations (cs : list case) : list nat := bad_indices check cs.
