(* Correspondence for C14 over scripted clients against the real Server: the
   comparison with Model B is restricted to the projection of the observation
   that C14 talks about; the check is C14's decidable clause on the observation. *)
From Coq Require Import List Bool Arith String.
Import ListNotations.
From Lime Require Import Base.Res Hs.Types Hs.Server Hs.Monitor Corr.HsServer Corr.HsChecks.
Open Scope string_scope.
Open Scope list_scope.
(* besides the scripted handshakes: a peer that sends one session envelope and vanishes at once, over every
   transport of a real Server (listener, dial, Send, Close).  The peer does not wait for anything, so the only
   observations are the callback counters and the goroutine census; they are compared with Model B's run over
   the two-item script [that envelope; end of stream] under the configuration the scenario uses (guest scheme,
   everyone is allowed, encryption and compression "none"). *)
Inductive case :=
| KScript (c : scase)
| KAbrupt (kind : tkind) (first : cses) (est_cb fin_cb : nat) (ended : bool)
          (peer_saw_end : bool)    (* the peer, where it waited for it, saw the connection end (true where it did not wait) *)
(* a peer that vanishes while Authenticate is deciding (Corr/HsChecks.v) *)
| KVanish (kind : tkind) (verdict : ares) (est_cb fin_cb : nat) (ended : bool) (auth_calls : nat)
          (reached : bool).        (* the harness got the server as far as the Authenticate call *)

Definition check (c : case) : bool :=
  match c with
  | KScript s => c14_check s
  | KAbrupt _ _ est fin ended saw => Nat.eqb est 0 && Nat.eqb fin 0 && ended && saw
  (* the connection is released, Authenticate was asked once, callbacks come in pairs, and no session is
     announced unless the verdict was a known role *)
  | KVanish _ verdict est fin ended calls reached =>
      reached && ended && Nat.eqb calls 1 && Nat.eqb est fin &&
      match verdict with ARole => Nat.leb est 1 | _ => Nat.eqb est 0 end
  end.
Definition agrees (c : case) : bool :=
  match c with
  | KScript s =>
      match c14_proj (k_obs s), c14_proj (model_obs s) with
      | (a, b, d), (a', b', d') => evs_eqb a a' && Bool.eqb b b' && Bool.eqb d d'
      end
  | KAbrupt k first est fin ended saw =>
      match abrupt_model k first with
      | (e, f, d) => Nat.eqb est e && Nat.eqb fin f && Bool.eqb ended d && saw
      end
  | KVanish k verdict est fin ended calls reached =>
      match vanish_model k verdict with
      | (e, f, d, a) =>
          reached && Bool.eqb ended d && Nat.eqb calls a &&
          match verdict with ARole => Nat.eqb est fin | _ => Nat.eqb est e && Nat.eqb fin f end
      end
  end.
Definition mismatches (cs : list case) : list nat := bad_indices agrees cs.
Definition violations (cs : list case) : list nat := bad_indices check cs.
