(* Correspondence for C14 over scripted clients against the real Server: the
   comparison with Model B is restricted to the projection of the observation
   that C14 talks about; the check is C14's decidable clause on the observation. *)
From Coq Require Import List Bool Arith String.
Import ListNotations.
From Lime Require Import Base.Res Hs.Types Hs.Server Hs.Monitor Corr.HsServer Corr.HsChecks.
Definition case := scase.
Definition check (c : scase) : bool := c14_check c.
Definition agrees (c : scase) : bool := match c14_proj (k_obs c), c14_proj (model_obs c) with (a, b, d), (a', b', d') => evs_eqb a a' && Bool.eqb b b' && Bool.eqb d d' end.
Definition mismatches (cs : list scase) : list nat := bad_indices agrees cs.
Definition violations (cs : list scase) : list nat := bad_indices check cs.
