(* Correspondence for C14 over scripted clients against the real Server: the
   comparison with Model B is restricted to the projection of the observation
   that C14 talks about; the check is C14's decidable clause on the observation. *)
From Coq Require Import List Bool Arith String.
Import ListNotations.
From Lime Require Import Base.Res Hs.Types Hs.Server Hs.Monitor Corr.HsServer Corr.HsChecks.
(* besides the scripted handshakes: a peer that sends one envelope that cannot start a session and vanishes at
   once, over every transport of a real Server (an implementation-only direct check: Model B plays its inputs in
   lock-step and does not represent the in-process transport's "already closed when the reply is attempted") *)
Inductive case :=
| KScript (c : scase)
| KAbrupt (est_cb fin_cb : nat) (ended : bool).

Definition check (c : case) : bool :=
  match c with
  | KScript s => c14_check s
  | KAbrupt est fin ended => Nat.eqb est 0 && Nat.eqb fin 0 && ended
  end.
Definition agrees (c : case) : bool :=
  match c with
  | KScript s =>
      match c14_proj (k_obs s), c14_proj (model_obs s) with
      | (a, b, d), (a', b', d') => evs_eqb a a' && Bool.eqb b b' && Bool.eqb d d'
      end
  | KAbrupt _ _ _ => true
  end.
Definition mismatches (cs : list case) : list nat := bad_indices agrees cs.
Definition violations (cs : list case) : list nat := bad_indices check cs.
