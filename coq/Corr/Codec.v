(* Shared pieces of the codec correspondences (C01, C02, C11). *)
From Coq Require Import List Bool Ascii String ZArith.
Import ListNotations.
From Lime Require Import Base.Str Base.Res Base.Json Codec.Types Codec.TextForms Codec.Doc Codec.Envelope
  Codec.EnvelopeFacts Codec.Eqb.
Open Scope string_scope.

(* decoding fuel used when evaluating cases; generated documents nest far less *)
Definition case_fuel : nat := 48.

(* net/url's behaviour on the URI texts of a case, as observed by the harness
   (ParseLimeURI(s): None = rejected, Some u = what the parsed URI prints as);
   texts not listed are taken to print as themselves *)
Definition uri_table := list (string * option string).
Definition uri_oracle (t : uri_table) (s : string) : option string :=
  match find (fun kv => String.eqb (fst kv) s) t with
  | Some kv => snd kv
  | None => Some s
  end.
Definition mk_cx (t : uri_table) : ctx := {| cx_fix := repaired; cx_uri := uri_oracle t |}.

Definition res_env_eqb := res_eqb env_eqb.
Definition res_json_opt (r : res json) : option json := match r with Ok j => Some j | _ => None end.

Lemma res_env_eqb_refl r : res_env_eqb r r = true.
Proof. destruct r; cbn; auto. apply env_eqb_refl. Qed.
