(* Shared correspondence for the server-handshake properties (C03, C06, C07,
   C09, C10, C14): a case is a configuration, callback tables, a client script
   and what a scripted raw client observed against the real Server. *)
From Coq Require Import List Bool Arith String.
Import ListNotations.
From Lime Require Import Base.Res Hs.Types Hs.Server.
Open Scope string_scope.
Open Scope list_scope.

Record obs := {
  ob_wire : list ev;                (* Took (the client wrote its next input) and Sent s enc (the client read session
                                       envelope s under encryption enc), interleaved as they happened *)
  ob_calls : list ev;               (* Took and AuthCall / RegCall / EstCb / FinCb / Dispatch, interleaved as they happened *)
  ob_closed : bool;                 (* the server closed the connection *)
  ob_ended : bool                   (* no goroutine is serving the connection any more *)
}.

Record scase := {
  k_conf : sconf;
  k_auth : list (nat * string * option nat * nat * ares);
  k_reg : list (nat * rres);
  k_script : list cin;
  k_obs : obs
}.

Definition opt_nat_eqb (a b : option nat) : bool :=
  match a, b with Some x, Some y => Nat.eqb x y | None, None => true | _, _ => false end.

Definition auth_of (t : list (nat * string * option nat * nat * ares)) (from : nat) (scheme : string)
  (cred : option nat) (round : nat) : ares :=
  match find (fun r => match r with (f, s, c, n, _) =>
                 Nat.eqb f from && String.eqb s scheme && opt_nat_eqb c cred && Nat.eqb n round end) t with
  | Some (_, _, _, _, a) => a
  | None => AUnknown
  end.
Definition reg_of (t : list (nat * rres)) (from : nat) : rres :=
  match find (fun r => Nat.eqb (fst r) from) t with
  | Some r => snd r
  | None => RNode (100 + from)
  end.
Definition oracle_of (c : scase) : oracle := {| o_auth := auth_of (k_auth c); o_reg := reg_of (k_reg c) |}.

Definition is_call (e : ev) : bool :=
  match e with AuthCall _ _ _ _ | RegCall _ _ | EstCb | FinCb | Dispatch | Took _ => true | _ => false end.
Definition is_wire (e : ev) : bool := match e with Sent _ _ | Took _ => true | _ => false end.
Definition has_closed (t : list ev) : bool := existsb (fun e => match e with Closed => true | _ => false end) t.

Definition project (r : run_result) : obs :=
  {| ob_wire := filter is_wire (rr_trace r); ob_calls := filter is_call (rr_trace r);
     ob_closed := has_closed (rr_trace r); ob_ended := rr_handler_ended r |}.

Definition run_case (fx : sfix) (c : scase) : run_result := handle_channel fx (k_conf c) (oracle_of c) (k_script c).
Definition model_obs (c : scase) : obs := project (run_case s_repaired c).

(* ---- boolean equality of observations ---- *)
Fixpoint list_eqb {A} (eqb : A -> A -> bool) (a b : list A) : bool :=
  match a, b with
  | [], [] => true
  | x :: a', y :: b' => eqb x y && list_eqb eqb a' b'
  | _, _ => false
  end.
Definition strs_eqb := list_eqb String.eqb.
Definition sses_eqb (a b : sses) : bool :=
  state_eqb (ss_state a) (ss_state b) && String.eqb (ss_id a) (ss_id b) && opt_nat_eqb (ss_to a) (ss_to b) &&
  strs_eqb (ss_encopts a) (ss_encopts b) && strs_eqb (ss_compopts a) (ss_compopts b) &&
  strs_eqb (ss_schemeopts a) (ss_schemeopts b) && String.eqb (ss_enc a) (ss_enc b) &&
  String.eqb (ss_comp a) (ss_comp b) && opt_nat_eqb (ss_round a) (ss_round b) && Bool.eqb (ss_reason a) (ss_reason b).
Definition cses_eqb (a b : cses) : bool :=
  String.eqb (cs_id a) (cs_id b) && state_eqb (cs_state a) (cs_state b) && String.eqb (cs_enc a) (cs_enc b) &&
  String.eqb (cs_comp a) (cs_comp b) && String.eqb (cs_scheme a) (cs_scheme b) &&
  opt_nat_eqb (cs_cred a) (cs_cred b) && Nat.eqb (cs_from a) (cs_from b).
Definition cin_eqb (a b : cin) : bool :=
  match a, b with
  | CSes x, CSes y => cses_eqb x y
  | CData, CData | CBad, CBad | CEof, CEof => true
  | _, _ => false
  end.
Definition ev_eqb (a b : ev) : bool :=
  match a, b with
  | Sent s e, Sent s' e' => sses_eqb s s' && String.eqb e e'
  | AuthCall f s c e, AuthCall f' s' c' e' => Nat.eqb f f' && String.eqb s s' && opt_nat_eqb c c' && String.eqb e e'
  | RegCall f e, RegCall f' e' => Nat.eqb f f' && String.eqb e e'
  | SetEnc x o, SetEnc x' o' | SetComp x o, SetComp x' o' => String.eqb x x' && Bool.eqb o o'
  | Closed, Closed | EstCb, EstCb | FinCb, FinCb | Dispatch, Dispatch => true
  | Took i, Took i' => cin_eqb i i'
  | _, _ => false
  end.
Definition obs_eqb (a b : obs) : bool :=
  list_eqb ev_eqb (ob_wire a) (ob_wire b) &&
  list_eqb ev_eqb (ob_calls a) (ob_calls b) && Bool.eqb (ob_closed a) (ob_closed b) &&
  Bool.eqb (ob_ended a) (ob_ended b).

Definition mismatches (cs : list scase) : list nat := bad_indices (fun c => obs_eqb (k_obs c) (model_obs c)) cs.

Lemma list_eqb_refl {A} (eqb : A -> A -> bool) l : (forall x, eqb x x = true) -> list_eqb eqb l l = true.
Proof. intros H. induction l as [|x t IH]; cbn; auto. rewrite H, IH. reflexivity. Qed.
Lemma opt_nat_eqb_refl o : opt_nat_eqb o o = true.
Proof. destruct o; cbn; auto. apply Nat.eqb_refl. Qed.
Lemma sses_eqb_refl s : sses_eqb s s = true.
Proof.
  unfold sses_eqb, strs_eqb. rewrite state_eqb_refl, !String.eqb_refl, !opt_nat_eqb_refl, Bool.eqb_reflx.
  rewrite !(list_eqb_refl String.eqb _ String.eqb_refl). reflexivity.
Qed.
Lemma cin_eqb_refl i : cin_eqb i i = true.
Proof.
  destruct i; cbn; auto. unfold cses_eqb.
  rewrite !String.eqb_refl, state_eqb_refl, opt_nat_eqb_refl, Nat.eqb_refl. reflexivity.
Qed.
Lemma ev_eqb_refl e : ev_eqb e e = true.
Proof.
  destruct e; cbn; rewrite ?cin_eqb_refl; rewrite ?sses_eqb_refl, ?String.eqb_refl, ?Nat.eqb_refl, ?opt_nat_eqb_refl, ?Bool.eqb_reflx; reflexivity.
Qed.
Lemma obs_eqb_refl o : obs_eqb o o = true.
Proof.
  unfold obs_eqb. rewrite !Bool.eqb_reflx, !(list_eqb_refl ev_eqb _ ev_eqb_refl). reflexivity.
Qed.
