(* Correspondence for C03 over scripted clients against the real Server: the
   comparison with Model B is restricted to the projection of the observation
   that C03 talks about; the check is C03's decidable clause on the observation. *)
From Coq Require Import List Bool Arith String.
Import ListNotations.
From Lime Require Import Base.Res Hs.Types Hs.Server Hs.Monitor Corr.HsServer Corr.HsChecks Hs.Builder Corr.Builder Corr.Interop.
(* besides the scripted handshakes against a Server configured directly: ServerBuilders and the Servers they
   build (Corr/Builder.v) *)
Inductive case := KScript (c : scase) | KB (b : bcase)
(* a peer that sends one session envelope and vanishes at once (see Corr/HsChecks.v): no session may come of it *)
| KAbrupt (kind : tkind) (first : cses) (est_cb fin_cb : nat) (ended : bool)
          (peer_saw_end : bool)    (* the peer, where it waited for it, saw the connection end (true where it did not wait) *)
(* a real ClientChannel.EstablishSession against a real Server (Corr/Interop.v): both ends of one handshake *)
| KInterop (c : icase).
Definition check (c : case) : bool :=
  match c with
  | KScript s => c03_check s
  | KB b => check_c03 b
  | KAbrupt _ _ est _ _ saw => Nat.eqb est 0 && saw
  (* a client that reports an established session holds the session id and the node of a session the server
     established (its Established callback ran, for that id and that node) *)
  | KInterop i =>
      match i_out i with
      | IRet SEstablished => i_srv_est i && i_sid_eq i && Nat.eqb (i_srv_remote i) (i_cli_local i)
      | _ => true
      end
  end.
Definition agrees (c : case) : bool :=
  match c with
  | KScript c => evs_eqb (c03_proj (k_obs c)) (c03_proj (model_obs c))
  | KB b => agrees_c03 b
  | KAbrupt k first est fin ended saw =>
      match abrupt_model k first with (e, f, d) => Nat.eqb est e && Nat.eqb fin f && Bool.eqb ended d && saw end
  | KInterop i => interop_agrees i
  end.
Definition mismatches (cs : list case) : list nat := bad_indices agrees cs.
Definition violations (cs : list case) : list nat := bad_indices check cs.
