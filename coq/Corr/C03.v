(* Correspondence for C03 over scripted clients against the real Server: the
   comparison with Model B is restricted to the projection of the observation
   that C03 talks about; the check is C03's decidable clause on the observation. *)
From Coq Require Import List Bool Arith String.
Import ListNotations.
From Lime Require Import Base.Res Hs.Types Hs.Server Hs.Monitor Corr.HsServer Corr.HsChecks Hs.Builder Corr.Builder.
(* besides the scripted handshakes against a Server configured directly: ServerBuilders and the Servers they
   build (Corr/Builder.v) *)
Inductive case := KScript (c : scase) | KB (b : bcase).
Definition check (c : case) : bool := match c with KScript s => c03_check s | KB b => check_c03 b end.
Definition agrees (c : case) : bool :=
  match c with
  | KScript c => evs_eqb (c03_proj (k_obs c)) (c03_proj (model_obs c))
  | KB b => agrees_c03 b
  end.
Definition mismatches (cs : list case) : list nat := bad_indices agrees cs.
Definition violations (cs : list case) : list nat := bad_indices check cs.
