(* Under the fair schedule used by the correspondence, Model H (repaired code)
   behaves, for every sequence of actions, exactly like the specification that
   only knows "has a live session" and "a server is reachable". *)
From Coq Require Import List Bool Arith Lia.
Import ListNotations.
From Lime Require Import Base.Res Life.Client Corr.C19.

Inductive related : cst -> spec_st -> Prop :=
| RLive sid n r e :
    related {| cur := Some {| c_sid := sid; c_state := CEst; c_conn := true; c_rcv := true |};
               next_sid := n; reach := r; lock := None; lis := LListening; app := AIdle; evs := e |}
            {| sp_reach := r; sp_live := true; sp_n := n |}
| RRetrying n e :
    related {| cur := None; next_sid := n; reach := false; lock := Some Listener; lis := LBuilding; app := AIdle; evs := e |}
            {| sp_reach := false; sp_live := false; sp_n := n |}.

Lemma act_related s sp a :
  related s sp ->
  related (fst (act true s a)) (fst (spec_act sp a)) /\
  snd (act true s a) = snd (spec_act sp a) /\
  next_sid (fst (act true s a)) = sp_n (fst (spec_act sp a)).
Proof.
  intros H. destruct H as [sid n r e | n e].
  - destruct r; destruct a as [|f| | | |]; try destruct f; vm_compute; repeat split; constructor.
  - destruct a as [|f| | | |]; try destruct f; vm_compute; repeat split; constructor.
Qed.

Theorem sim_spec s sp acts : related s sp -> sim true s acts = spec_sim sp acts.
Proof.
  revert s sp; induction acts as [|a r IH]; intros s sp H; [reflexivity|].
  cbn [sim spec_sim].
  destruct (act_related s sp a H) as [H1 [H2 H3]].
  destruct (act true s a) as [s' o]. destruct (spec_act sp a) as [sp' o']. cbn [fst snd] in *.
  subst. rewrite H3. f_equal. apply IH, H1.
Qed.

Lemma obs_eqb_refl o : obs_eqb o o = true.
Proof.
  destruct o as [n l]. unfold obs_eqb. cbn [fst snd]. rewrite Nat.eqb_refl. cbn [andb].
  induction l as [|[a k] l IH]; [reflexivity|]. cbn. rewrite IH, Nat.eqb_refl.
  destruct a as [x y|x|x|]; cbn; try destruct x; try destruct y; reflexivity.
Qed.

Theorem model_spec c : model c = spec c.
Proof.
  unfold model, spec. f_equal. apply sim_spec. vm_compute. constructor.
Qed.

Theorem model_meets_check c : check c (model c) = true.
Proof. unfold check. rewrite model_spec. apply obs_eqb_refl. Qed.
