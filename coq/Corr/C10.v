(* Correspondence for C10 over scripted clients against the real Server: the
   comparison with Model B is restricted to the projection of the observation
   that C10 talks about; the check is C10's decidable clause on the observation. *)
From Coq Require Import List Bool Arith String.
Import ListNotations.
From Lime Require Import Base.Res Hs.Types Hs.Server Hs.Monitor Corr.HsServer Corr.HsChecks.
Definition case := scase.
Definition check (c : scase) : bool := c10_check c.
Definition agrees (c : scase) : bool := list_eqb pair_nat_str_eqb (c10_proj (k_obs c)) (c10_proj (model_obs c)).
Definition mismatches (cs : list scase) : list nat := bad_indices agrees cs.
Definition violations (cs : list scase) : list nat := bad_indices check cs.
