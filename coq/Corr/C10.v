(* Correspondence for C10 over scripted clients against the real Server: the
   comparison with Model B is restricted to the projection of the observation
   that C10 talks about; the check is C10's decidable clause on the observation. *)
From Coq Require Import List Bool Arith String.
Import ListNotations.
From Lime Require Import Base.Res Hs.Types Hs.Server Hs.Monitor Corr.HsServer Corr.HsChecks Hs.Builder Corr.Builder Hs.Pipelined Corr.PipeChecks.
(* besides the scripted handshakes against a Server configured directly: ServerBuilders and the Servers they
   build (Corr/Builder.v) *)
(* what a real WebSocket listener hands out: its configuration has a TLS part or not; a plain ws:// client got through
   or not, and what the accepted transport then said its encryption was; the same for a wss:// client *)
Open Scope string_scope.
Inductive wsl := KWsListener (tls_config : bool) (plain_ok : bool) (plain_enc : string) (tls_ok : bool) (tls_enc : string).
Inductive case := KScript (c : scase) | KB (b : bcase) | KWsL (w : wsl)
(* a pipelined peer (Corr/PipeChecks.v): credentials written in clear behind the selection of an encryption are not
   accepted after the switch either *)
| KPipe (c : scase) (glued : list bool) (clear : list nat).
(* the encryption a transport reports is the one its connection really has: a client that connected without TLS is
   never served by a transport that says "tls" (a TLS-only server would then take it for encrypted), and vice versa *)
Definition wsl_ok (w : wsl) : bool :=
  match w with
  | KWsListener _ pok penc tok tenc =>
      (if pok then String.eqb penc "none" else true) && (if tok then String.eqb tenc "tls" else true)
  end.
Definition check (c : case) : bool :=
  match c with
  | KScript s => c10_check s | KB b => check_c10 b | KWsL w => wsl_ok w
  | KPipe s _ clear => pipe_check s clear && c10_check s
  end.
Definition agrees (c : case) : bool :=
  match c with
  | KScript c => list_eqb pair_nat_str_eqb (c10_proj (k_obs c)) (c10_proj (model_obs c))
  | KB b => agrees_c10 b
  | KWsL (KWsListener cfg pok penc tok tenc) =>
      (* Hs/Types.v: a WebSocket transport's encryption is fixed by how it was accepted (initial_enc (TWs tls)); a
         listener with a TLS part serves TLS only, one without serves plain connections only *)
      (if pok then negb cfg && String.eqb penc (initial_enc (TWs false)) else true) &&
      (if tok then cfg && String.eqb tenc (initial_enc (TWs true)) else true)
  | KPipe s glued _ => pipe_agrees s glued
  end.
Definition mismatches (cs : list case) : list nat := bad_indices agrees cs.
Definition violations (cs : list case) : list nat := bad_indices check cs.
