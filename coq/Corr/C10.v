(* Correspondence for C10 over scripted clients against the real Server: the
   comparison with Model B is restricted to the projection of the observation
   that C10 talks about; the check is C10's decidable clause on the observation. *)
From Coq Require Import List Bool Arith String.
Import ListNotations.
From Lime Require Import Base.Res Hs.Types Hs.Server Hs.Monitor Corr.HsServer Corr.HsChecks Hs.Builder Corr.Builder.
(* besides the scripted handshakes against a Server configured directly: ServerBuilders and the Servers they
   build (Corr/Builder.v) *)
Inductive case := KScript (c : scase) | KB (b : bcase).
Definition check (c : case) : bool := match c with KScript s => c10_check s | KB b => check_c10 b end.
Definition agrees (c : case) : bool :=
  match c with
  | KScript c => list_eqb pair_nat_str_eqb (c10_proj (k_obs c)) (c10_proj (model_obs c))
  | KB b => agrees_c10 b
  end.
Definition mismatches (cs : list case) : list nat := bad_indices agrees cs.
Definition violations (cs : list case) : list nat := bad_indices check cs.
