(* Correspondence for C09 over scripted clients against the real Server: the
   comparison with Model B is restricted to the projection of the observation
   that C09 talks about; the check is C09's decidable clause on the observation. *)
From Coq Require Import List Bool Arith String.
Import ListNotations.
From Lime Require Import Base.Res Hs.Types Hs.Server Hs.Monitor Corr.HsServer Corr.HsChecks.
Definition case := scase.
Definition check (c : scase) : bool := c09_check c.
Definition agrees (c : scase) : bool := evs_eqb (c09_proj (k_obs c)) (c09_proj (model_obs c)).
Definition mismatches (cs : list scase) : list nat := bad_indices agrees cs.
Definition violations (cs : list scase) : list nat := bad_indices check cs.
