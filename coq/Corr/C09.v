(* Correspondence for C09 over scripted clients against the real Server: the
   comparison with Model B is restricted to the projection of the observation
   that C09 talks about; the check is C09's decidable clause on the observation. *)
From Coq Require Import List Bool Arith String.
Import ListNotations.
From Lime Require Import Base.Res Hs.Types Hs.Server Hs.Monitor Corr.HsServer Corr.HsChecks.
(* besides the scripted handshakes: a peer that writes, in the same segment as its selection of TLS and therefore
   in clear, credentials for one identity, completes the TLS handshake and then presents another identity's
   credentials under TLS (an implementation-only direct check: Model B receives its inputs one at a time).  What
   was received in clear before the switch must never be acted upon after it. *)
Inductive case :=
| KScript (c : scase)
| KPipelined (cleartext_identity : nat) (authenticated : list nat) (established_for : option nat).

Definition check (c : case) : bool :=
  match c with
  | KScript s => c09_check s
  | KPipelined clear auths est =>
      negb (existsb (Nat.eqb clear) auths) &&
      match est with Some n => negb (Nat.eqb n clear) | None => true end
  end.
Definition agrees (c : case) : bool :=
  match c with
  | KScript s => evs_eqb (c09_proj (k_obs s)) (c09_proj (model_obs s))
  | KPipelined _ _ _ => true
  end.
Definition mismatches (cs : list case) : list nat := bad_indices agrees cs.
Definition violations (cs : list case) : list nat := bad_indices check cs.
