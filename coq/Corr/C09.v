(* Correspondence for C09 over scripted clients against the real Server: the
   comparison with Model B is restricted to the projection of the observation
   that C09 talks about; the check is C09's decidable clause on the observation. *)
From Coq Require Import List Bool Arith String.
Import ListNotations.
From Lime Require Import Base.Res Hs.Types Hs.Server Hs.Monitor Hs.Pipelined Corr.HsServer Corr.HsChecks Corr.PipeChecks Corr.Interop.
Open Scope string_scope.
Open Scope list_scope.

(* ---- pipelined peers ----
   Model B receives its inputs one at a time.  A peer may also write several envelopes in one segment, without
   waiting for the answers ("glued" to the one before).  What the TCP transport does with them: its decoder
   reads the whole segment into its buffer when it is asked for the first envelope; the later ones are served
   from that buffer - unless SetEncryption switched the connection in between, which replaces the decoder
   (tcpTransport.setConn), so that whatever was buffered in clear is discarded and never acted upon.
   [effective] (Hs/Pipelined.v) turns a script with glued items into the script the session logic gets to see:
   a glued item is dropped when, in Model B's run over the items before it, the server switched the encryption
   after taking its last input. *)
(* KPipelined: the scripted case [c] (its script lists every item the peer wrote, [glued] says which of them
   were written in the same segment as the item before; [clear] are the identities whose credentials the peer
   wrote only in clear, before an upgrade that it then completed). *)
Inductive case :=
| KScript (c : scase)
| KPipelined (c : scase) (glued : list bool) (clear : list nat)
(* the option calls of one end of a real transport pair (the other end makes the same calls at the same time):
   what it says it supports, what is in force initially, and a sequence of SetEncryption (true) / SetCompression
   (false) calls, each with its argument, whether it succeeded and what was in force afterwards *)
| KOptions (k : tkind) (sup_enc sup_comp : list string) (init_enc init_comp : string)
           (calls : list (bool * string * bool * string * string))
(* a real ClientChannel.EstablishSession against a real Server (Corr/Interop.v): both ends of one handshake *)
| KInterop (c : icase).

(* Hs/Types.v's view of the same calls *)
Fixpoint options_agree (k : tkind) (enc comp : string) (calls : list (bool * string * bool * string * string)) : bool :=
  match calls with
  | [] => true
  | (is_enc, arg, ok, enc', comp') :: r =>
      (if is_enc
       then let (ok_m, enc_m) := set_enc k true enc arg in
            Bool.eqb ok ok_m && String.eqb enc' enc_m && String.eqb comp' comp
       else Bool.eqb ok (set_comp k comp arg) && String.eqb enc' enc && String.eqb comp' comp) &&
      options_agree k enc' comp' r
  end.
(* C09's clauses on the calls themselves: a failed call changes nothing; a successful one leaves its argument in
   force and the argument is among the supported options; encryption is never taken back to "none" *)
Fixpoint options_ok (sup_enc sup_comp : list string) (enc comp : string) (calls : list (bool * string * bool * string * string)) : bool :=
  match calls with
  | [] => true
  | (is_enc, arg, ok, enc', comp') :: r =>
      (if ok then (if is_enc then String.eqb enc' arg && mem arg sup_enc && String.eqb comp' comp
                   else String.eqb comp' arg && mem arg sup_comp && String.eqb enc' enc)
       else String.eqb enc' enc && String.eqb comp' comp) &&
      negb (String.eqb enc "tls" && String.eqb enc' "none") &&
      options_ok sup_enc sup_comp enc' comp' r
  end.

Definition check (c : case) : bool :=
  match c with
  | KScript s => c09_check s
  | KPipelined s _ clear => pipe_check s clear
  | KOptions k se sc ie ic calls => mem ie se && mem ic sc && options_ok se sc ie ic calls
  | KInterop i => interop_check i
  end.
Definition agrees (c : case) : bool :=
  match c with
  | KScript s => evs_eqb (c09_proj (k_obs s)) (c09_proj (model_obs s))
  | KPipelined s glued _ => pipe_agrees s glued
  | KOptions k se sc ie ic calls =>
      strs_eqb se (supported_enc k) && strs_eqb sc (supported_comp k) && String.eqb ie (initial_enc k) &&
      String.eqb ic "none" && options_agree k ie ic calls
  | KInterop i => interop_agrees i
  end.
Definition mismatches (cs : list case) : list nat := bad_indices agrees cs.
Definition violations (cs : list case) : list nat := bad_indices check cs.
