(* Correspondence for C06: the receive side over scripted clients against the
   real Server (projection and check from Corr/HsChecks.v), and the send side:
   every send operation called at every stage of the handshake and teardown of
   both roles. *)
From Coq Require Import List Bool Arith String.
Import ListNotations.
From Lime Require Import Base.Res Hs.Types Hs.Server Hs.Monitor Corr.HsServer Corr.HsChecks Chan.Gate.

Inductive case :=
| GScript (c : scase)
(* a send operation on a channel whose State() and transport Connected() were sampled just
   before: did it return nil, and how many envelopes did the peer see because of it *)
| GSend (client_role : bool) (session_est : bool) (st : state) (connected : bool) (op : sendop) (o_ok : bool) (o_emitted : nat).
(* [session_est]: whether, by the script the peer has played so far, the session is established at this
   stage (the ground truth, which the channel's own State() may or may not reflect) *)

Definition check (c : case) : bool :=
  match c with
  | GScript s => c06_check s
  | GSend _ est st conn _ ok emitted =>
      (* before establishment and after finished/failed - by the channel's own state or by what the
         peer has said - an error, and nothing on the wire *)
      if state_eqb st SEstablished && est then true else negb ok && Nat.eqb emitted 0
  end.
Definition agrees (c : case) : bool :=
  match c with
  | GScript s =>
      evs_eqb (fst (c06_proj (k_obs s))) (fst (c06_proj (model_obs s))) &&
      Bool.eqb (snd (c06_proj (k_obs s))) (snd (c06_proj (model_obs s)))
  | GSend _ _ st conn op ok emitted =>
      let (mok, mem) := gate st conn op in Bool.eqb ok mok && Nat.eqb emitted mem
  end.
Definition mismatches (cs : list case) : list nat := bad_indices agrees cs.
Definition violations (cs : list case) : list nat := bad_indices check cs.
