(* Correspondence for C06 over scripted clients against the real Server: the
   comparison with Model B is restricted to the projection of the observation
   that C06 talks about; the check is C06's decidable clause on the observation. *)
From Coq Require Import List Bool Arith String.
Import ListNotations.
From Lime Require Import Base.Res Hs.Types Hs.Server Hs.Monitor Corr.HsServer Corr.HsChecks.
Definition case := scase.
Definition check (c : scase) : bool := c06_check c.
Definition agrees (c : scase) : bool := evs_eqb (fst (c06_proj (k_obs c))) (fst (c06_proj (model_obs c))) && Bool.eqb (snd (c06_proj (k_obs c))) (snd (c06_proj (model_obs c))).
Definition mismatches (cs : list scase) : list nat := bad_indices agrees cs.
Definition violations (cs : list scase) : list nat := bad_indices check cs.
