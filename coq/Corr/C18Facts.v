(* The model's traces meet the property's trace clause for every phase, every
   number of envelopes and every oracle; the canonical shutdown schedules end
   in the orderly final state (finite sweep over the number of listeners). *)
From Coq Require Import List Bool Arith Lia.
Import ListNotations.
From Lime Require Import Base.Res Life.Handler Life.HandlerFacts Life.Server Life.ServerFacts Corr.C18.

Lemma hrun_app s a b : hrun s (a ++ b) = hrun (hrun s a) b.
Proof. unfold hrun. apply fold_left_app. Qed.

Lemma hrun_cons s c l ls : hrun s ((c, l) :: ls) = hrun (hstep c s l) ls.
Proof. reflexivity. Qed.

Lemma run_envs evs n :
  hrun {| h_pc := PListen; h_evs := evs |} (repeat (false, LEnvelope true) n) =
  {| h_pc := PListen; h_evs := evs ++ repeat EvRun n |}.
Proof.
  revert evs; induction n as [|n IH]; intros evs; cbn [repeat].
  - rewrite app_nil_r. reflexivity.
  - rewrite hrun_cons. cbv beta iota delta [hstep hgo h_pc h_evs fst snd]. rewrite IH, <- app_assoc. reflexivity.
Qed.

Lemma mon_runs n : fold_left mon_step (repeat EvRun n) MEst = MEst.
Proof. induction n; cbn; auto. Qed.

Lemma has_app e a b : has e (a ++ b) = has e a || has e b.
Proof. unfold has. apply existsb_app. Qed.

Definition full_cycle (n : nat) : list hev := [EvEst] ++ repeat EvRun n ++ [EvSentFinished; EvClosed; EvFin].
Definition gone_cycle (n : nat) : list hev := [EvEst] ++ repeat EvRun n ++ [EvClosed; EvFin].

Lemma est_prefix n :
  hrun hinit ([(false, LHandshake HsEstablished); (false, LStep)] ++ repeat (false, LEnvelope true) n) =
  {| h_pc := PListen; h_evs := [EvEst] ++ repeat EvRun n |}.
Proof. rewrite hrun_app. cbn [app]. rewrite !hrun_cons. cbv beta iota delta [hstep hgo hinit h_pc h_evs fst snd]; cbn [app]. change (hrun ?s []) with s. apply run_envs. Qed.

Lemma trace_full n tail :
  tail = [(true, LCtxDone); (true, LStep); (true, LStep)] \/
  tail = [(false, LPeerFinishing); (false, LStep); (false, LStep)] ->
  h_evs (hrun hinit ([(false, LHandshake HsEstablished); (false, LStep)] ++ repeat (false, LEnvelope true) n ++ tail)) =
  full_cycle n.
Proof.
  intros H. rewrite app_assoc, hrun_app, est_prefix.
  destruct H as [-> | ->]; rewrite !hrun_cons; cbv beta iota delta [hstep hgo h_pc h_evs fst snd]; change (hrun ?s []) with s; cbn [h_evs];
    unfold full_cycle; rewrite <- !app_assoc; reflexivity.
Qed.

Lemma trace_gone n :
  h_evs (hrun hinit ([(false, LHandshake HsEstablished); (false, LStep)] ++ repeat (false, LEnvelope true) n ++
                     [(false, LPeerGone); (false, LStep); (false, LStep)])) = gone_cycle n.
Proof.
  rewrite app_assoc, hrun_app, est_prefix. rewrite !hrun_cons; cbv beta iota delta [hstep hgo h_pc h_evs fst snd]. change (hrun ?s []) with s. cbv beta iota delta [h_evs].
  unfold gone_cycle; rewrite <- !app_assoc; reflexivity.
Qed.

Lemma full_cycle_ok n : mon_final (mon_run (full_cycle n)) = true /\ has EvEst (full_cycle n) = true /\ has EvSentFinished (full_cycle n) = true.
Proof.
  unfold full_cycle. split; [|split].
  - unfold mon_run. rewrite !fold_left_app. cbn [fold_left mon_step]. rewrite mon_runs. reflexivity.
  - reflexivity.
  - rewrite !has_app. cbn. rewrite !orb_true_r. reflexivity.
Qed.

Lemma gone_cycle_ok n : mon_final (mon_run (gone_cycle n)) = true.
Proof. unfold gone_cycle, mon_run. rewrite !fold_left_app. cbn [fold_left mon_step]. rewrite mon_runs. reflexivity. Qed.

(* every model trace, for every phase, count and oracle, satisfies the property's clause *)
Theorem model_traces_ok : forall cl ts, length ts = length cl -> traces_ok cl (model_traces cl ts) = true.
Proof.
  induction cl as [|[p m] cl IH]; intros ts Hlen; [reflexivity|].
  destruct ts as [|t ts]; [discriminate|]. cbn [model_traces hd tl traces_ok].
  rewrite IH by (cbn in Hlen; lia). rewrite andb_true_r.
  unfold model_trace.
  destruct p; cbv beta iota zeta delta [handler_labels established_at_close fst snd].
  - rewrite trace_full by auto. destruct (full_cycle_ok m) as [A [B C]]. rewrite A, B, C. reflexivity.
  - rewrite trace_full by auto. destruct (full_cycle_ok m) as [A [B C]]. rewrite A, B, C. reflexivity.
  - rewrite trace_full by auto. destruct (full_cycle_ok (runs_of t)) as [A [B C]]. rewrite A, B, C. reflexivity.
  - reflexivity.
  - reflexivity.
  - rewrite trace_full by auto. destruct (full_cycle_ok m) as [A _]. rewrite A. reflexivity.
  - rewrite trace_gone, gone_cycle_ok. reflexivity.
  - destruct (has EvEst t).
    + rewrite trace_full by auto. destruct (full_cycle_ok (runs_of t)) as [A _]. rewrite A. reflexivity.
    + reflexivity.
Qed.

(* the canonical schedules reach the orderly final state: swept for up to 8 listeners *)
Definition server_ok (held n : nat) : bool :=
  let c := {| k_kind := KGated; k_listeners := n; k_held := held; k_clients := []; o_panic := false; o_returned := true;
              o_result := ErrServerClosed; o_listeners_left := 0; o_goroutines_left := 0; o_released := 0; o_stray := 0;
              o_traces := [] |} in
  let s := server_final c in
  negb (panicked s) && match main s with MReturned ErrServerClosed => true | _ => false end &&
  Nat.eqb (length (filter negb (lclosed s))) 0 && Nat.eqb (released s) (match held with O => 0 | _ => 1 end) &&
  Nat.eqb (leaked s) 0 && Nat.eqb (queue s) 0.

Theorem canonical_schedules_ok :
  forallb (fun n => server_ok 0 n && server_ok 1 (S n) && server_ok 3 (S n)) (seq 0 9) = true.
Proof. vm_compute. reflexivity. Qed.
