(* Correspondence and executable property check for C11. *)
From Coq Require Import List Bool Ascii String ZArith.
Import ListNotations.
From Lime Require Import Base.Str Base.Res Base.Json Codec.Types Codec.TextForms Codec.Doc Codec.Envelope
  Codec.EnvelopeFacts Codec.Eqb Codec.Builders Codec.BuildersFacts Corr.Codec.
Open Scope string_scope.

Inductive builder := BSuccess | BSuccessWith | BFailure.

Inductive case :=
(* a response built from request q (resource d / reason rsn as the builder takes
   them): the built value and what a transport's receive path makes of its encoding *)
| CResp (b : builder) (q : reqcmd) (d : option doc) (rsn : option reason) (o : respcmd) (o_any : res env)
| CNotif (failed : bool) (m : message) (ev : string) (rsn : option reason) (o : notification) (o_any : res env)
| CSender (e : envelope) (o : node)
(* a ping request processed over a real established session whose peer has
   AutoReplyPings on: Ok = the response ProcessCommand returned, Err = error or timeout *)
| CPing (q : reqcmd) (o : res env).

Definition cx0 := mk_cx [].

Definition built_resp (b : builder) (q : reqcmd) (d : option doc) (rsn : option reason) : respcmd :=
  match b with
  | BSuccess => success_response repaired q
  | BSuccessWith => match d with Some x => success_response_with repaired q x | None => success_response repaired q end
  | BFailure => failure_response repaired q rsn
  end.
Definition built_not (failed : bool) (m : message) (ev : string) (rsn : option reason) : notification :=
  if failed then failed_notification_for repaired m rsn else notification_for repaired m ev.

Definition wire (e : env) : res env := bind (encode e) (decode_any cx0 case_fuel).

Definition model_case (c : case) : case :=
  match c with
  | CResp b q d rsn _ _ => let r := built_resp b q d rsn in CResp b q d rsn r (wire (EResp r))
  | CNotif f m ev rsn _ _ => let n := built_not f m ev rsn in CNotif f m ev rsn n (wire (ENot n))
  | CSender e _ => CSender e (sender repaired e)
  | CPing q _ => CPing q (Ok (EResp (ping_reply repaired q)))
  end.

Definition case_eqb (a b : case) : bool :=
  match a, b with
  | CResp _ _ _ _ o y, CResp _ _ _ _ o' y' => env_eqb (EResp o) (EResp o') && res_env_eqb y y'
  | CNotif _ _ _ _ o y, CNotif _ _ _ _ o' y' => env_eqb (ENot o) (ENot o') && res_env_eqb y y'
  | CSender _ o, CSender _ o' => node_eqb o o'
  | CPing _ o, CPing _ o' => res_env_eqb o o'
  | _, _ => false
  end.

(* ---- the property, clause by clause, on an observation ---- *)
Definition addressed (req rep : envelope) : bool :=
  String.eqb (e_id rep) (e_id req) && node_eqb (e_from rep) (e_to req) &&
  node_eqb (e_to rep) (expected_sender req).

Definition resp_fields (b : builder) (q : reqcmd) (d : option doc) (rsn : option reason) (o : respcmd) : bool :=
  addressed (c_env (rq_cmd q)) (c_env (rs_cmd o)) &&
  String.eqb (c_method (rs_cmd o)) (c_method (rq_cmd q)) &&
  match b, d with
  | BSuccess, _ | BSuccessWith, None =>
      String.eqb (rs_status o) "success" && option_eqb doc_eqb (c_resource (rs_cmd o)) None
  | BSuccessWith, Some x =>
      String.eqb (rs_status o) "success" && option_eqb doc_eqb (c_resource (rs_cmd o)) (Some x) &&
      option_eqb mt_eqb (c_type (rs_cmd o)) (Some (doc_mediatype x))
  | BFailure, _ =>
      String.eqb (rs_status o) "failure" && option_eqb reason_eqb (rs_reason o) rsn
  end.

Definition check (c : case) : bool :=
  match c with
  | CResp b q d rsn o y =>
      resp_fields b q d rsn o &&
      (if wf_request q && opt_all wf_doc d && opt_all wf_reason rsn && Nat.leb (doc_depth_opt d) case_fuel
       then res_env_eqb y (Ok (EResp o)) else true)
  | CNotif f m ev rsn o y =>
      addressed (m_env m) (nt_env o) &&
      (if f then String.eqb (nt_event o) "failed" && option_eqb reason_eqb (nt_reason o) rsn
       else String.eqb (nt_event o) ev) &&
      (if wf_base (m_env m) && (f || valid_event ev) && opt_all wf_reason rsn
       then res_env_eqb y (Ok (ENot o)) else true)
  | CSender e o => node_eqb o (expected_sender e)
  | CPing q o =>
      match o with
      | Ok (EResp r) => resp_fields BSuccessWith q (Some DPing) None r
      | _ => false
      end
  end.

Definition mismatches (cs : list case) : list nat := bad_indices (fun c => case_eqb c (model_case c)) cs.
Definition violations (cs : list case) : list nat := bad_indices check cs.
