(* The model's joint run of all sessions meets the per-client specification and
   hence the property's executable check, on every case. *)
From Coq Require Import List Bool Arith Lia.
Import ListNotations.
From Lime Require Import Base.Res Mux.Sessions Mux.SessionsFacts Corr.C17.

Lemma list_eqb_refl {A} (eqb : A -> A -> bool) (H : forall x, eqb x x = true) l : list_eqb eqb l l = true.
Proof. induction l as [|x l IH]; cbn; auto. rewrite H, IH. reflexivity. Qed.
Lemma ctxv_eqb_refl x : ctxv_eqb x x = true.
Proof. destruct x as [[a b] c]. cbn. rewrite !Nat.eqb_refl. reflexivity. Qed.
Lemma wr_eqb_refl x : wr_eqb x x = true.
Proof. unfold wr_eqb. rewrite ctxv_eqb_refl, Nat.eqb_refl. reflexivity. Qed.
Lemma obs_eqb_refl o : obs_eqb o o = true.
Proof.
  destruct o as [[a b] c]. cbn.
  rewrite (list_eqb_refl _ ctxv_eqb_refl), !(list_eqb_refl _ (list_eqb_refl _ wr_eqb_refl)). reflexivity.
Qed.

Section Len.
  Variable server_node : nat.
  Variable ids : nat -> nat.
  Variable reg : nat -> nat -> nat.
  Variable handler : ctxv -> nat -> list nat.
  Lemma length_sessions_run r st :
    length (sessions (fold_left (sstep server_node ids reg handler) r st)) = length (sessions st) + length (cands r).
  Proof.
    revert st; induction r as [|o r IH]; intros st; cbn [fold_left cands]; [cbn; lia|].
    rewrite IH. destruct o as [c | j e | j]; cbn [sstep cands].
    - cbn [sessions length]. rewrite app_length. cbn. lia.
    - destruct (nth_error (sessions st) j); [|reflexivity]. destruct (s_live s); [|reflexivity].
      cbn [sessions]. rewrite length_set_nth. reflexivity.
    - destruct (nth_error (sessions st) j); [|reflexivity]. cbn [sessions]. rewrite length_set_nth. reflexivity.
  Qed.
End Len.

Lemma cands_interleave pos fin ops : cands (interleave pos fin ops) = [].
Proof.
  revert pos; induction ops as [|[i e] r IH]; intros pos; cbn [interleave].
  - rewrite app_nil_r. induction (filter _ fin) as [|x l IHl]; cbn; auto.
  - induction (filter _ fin) as [|x l IHl]; cbn [map app cands]; auto.
Qed.

Lemma cands_app a b : cands (a ++ b) = cands a ++ cands b.
Proof. induction a as [|o a IH]; cbn; auto. destruct o; cbn; rewrite IH; reflexivity. Qed.

Lemma cands_connects l : cands (map Connect l) = l.
Proof. induction l; cbn; congruence. Qed.

Lemma cands_history c : cands (history c) = c_cands c.
Proof. unfold history. rewrite cands_app, cands_connects, cands_interleave, app_nil_r. reflexivity. Qed.

Theorem model_spec c : model c = spec c.
Proof.
  unfold model, spec.
  set (st := srun _ _ _ _ _).
  assert (Hlen : length (sessions st) = length (c_cands c)).
  { unfold st, srun. rewrite length_sessions_run, cands_history. reflexivity. }
  assert (H : forall i, In i (seq 0 (length (c_cands c))) ->
            exists s, nth_error (sessions st) i = Some s /\
              ctx_of s = spec_ctx (c_server c) (ids_of c) (reg_of c) (history c) i /\
              s_out s = spec_out (c_server c) (ids_of c) (reg_of c) the_handler (history c) i /\
              s_in s = spec_in (c_server c) (ids_of c) (reg_of c) (history c) i).
  { intros i Hi. apply in_seq in Hi.
    destruct (nth_error (sessions st) i) as [s|] eqn:E.
    - exists s. split; [reflexivity|]. apply (session_spec _ _ _ _ _ _ _ E).
    - apply nth_error_None in E. lia. }
  rewrite !map_map.
  f_equal; [f_equal|]; apply map_ext_in; intros i Hi; destruct (H i Hi) as [s [E [H1 [H2 H3]]]]; rewrite E; auto.
Qed.

Theorem model_meets_check c :
  nodupb (o_sids c) = true -> length (o_sids c) = length (c_cands c) -> check c (model c) = true.
Proof.
  intros Hn Hl. unfold check. rewrite model_spec, obs_eqb_refl, Hn, Hl, Nat.eqb_refl. reflexivity.
Qed.

Lemma nodupb_NoDup l : nodupb l = true -> NoDup l.
Proof.
  induction l as [|x l IH]; cbn; intros H; [constructor|].
  apply andb_true_iff in H. destruct H as [H1 H2]. constructor; [|auto].
  intros Hin. apply negb_true_iff in H1.
  assert (existsb (Nat.eqb x) l = true) by (apply existsb_exists; exists x; split; [auto|apply Nat.eqb_refl]).
  congruence.
Qed.
