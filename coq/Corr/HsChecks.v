(* Property-specific projections and executable checks over the observations
   of scripted clients against the real Server (shared by C03, C06, C07, C09,
   C10, C14).  Each check is the decidable clause of its property evaluated on
   what was observed; each projection keeps only what that property talks about. *)
From Coq Require Import List Bool Arith String.
Import ListNotations.
From Lime Require Import Base.Res Hs.Types Hs.Server Hs.Monitor Corr.HsServer.
Open Scope string_scope.
Open Scope list_scope.

Definition is_took (e : ev) : bool := match e with Took _ => true | _ => false end.
Definition sent_state (e : ev) : option state := match e with Sent s _ => Some (ss_state s) | _ => None end.
Definition is_sent_state (st : state) (e : ev) : bool :=
  match e with Sent s _ => state_eqb (ss_state s) st | _ => false end.
Definition has_est (t : list ev) : bool := existsb (is_sent_state SEstablished) t.

(* the most recent input before position: last Took of a prefix *)
Fixpoint last_took (t : list ev) (acc : option cin) : option cin :=
  match t with
  | [] => acc
  | Took i :: r => last_took r (Some i)
  | _ :: r => last_took r acc
  end.

(* ---------- C03 ---------- *)
(* walk the call log: every AuthCall must be for what the peer presented last, under an
   offered scheme; remember whether the last one answered with a known role, then Register *)
Fixpoint c03_calls (conf : sconf) (o : oracle) (t : list ev) (inp : option cin) (round : nat)
         (authd : option nat) (reg : option nat) (est_seen : bool) : option (option nat) :=
  match t with
  | [] => Some reg
  | Took i :: r => c03_calls conf o r (Some i) round authd reg est_seen
  | AuthCall f sch cred _ :: r =>
      match inp with
      | Some (CSes ses) =>
          if Nat.eqb f (cs_from ses) && String.eqb sch (presented_scheme ses) && opt_nat_eqb cred (cs_cred ses) &&
             mem (cs_scheme ses) (sc_schemes conf) && state_eqb (cs_state ses) SAuthenticating &&
             String.eqb (cs_id ses) (sc_sid conf)
          then c03_calls conf o r inp (S round)
                 (match o_auth o f sch cred round with ARole => Some f | _ => None end) None est_seen
          else None
      | _ => None
      end
  | RegCall f _ :: r =>
      match authd with
      | Some f' => if Nat.eqb f f'
                   then c03_calls conf o r inp round None (match o_reg o f with RNode n => Some n | RegErr => None end) est_seen
                   else None
      | None => None
      end
  | EstCb :: r => if est_seen then c03_calls conf o r inp round authd reg est_seen else None
  | _ :: r => c03_calls conf o r inp round authd reg est_seen
  end.

Definition c03_check_gen (conf : sconf) (o : oracle) (ob : obs) : bool :=
  let ests := filter (is_sent_state SEstablished) (ob_wire ob) in
  match c03_calls conf o (ob_calls ob) None 0 None None (has_est (ob_wire ob)) with
  | None => false
  | Some reg =>
      match ests with
      | [] => true
      | [Sent s _] => match reg, ss_to s with Some n, Some n' => Nat.eqb n n' | _, _ => false end
      | _ => false
      end
  end.
Definition c03_check (c : scase) : bool := c03_check_gen (k_conf c) (oracle_of c) (k_obs c).
Definition c03_proj (ob : obs) : list ev :=
  (* C03 does not talk about encryption: the enc fields are blanked *)
  flat_map (fun e => match e with
                     | AuthCall f s c _ => [AuthCall f s c ""] | RegCall f _ => [RegCall f ""]
                     | EstCb => [EstCb] | Took i => [Took i]
                     | Sent s _ => if state_eqb (ss_state s) SEstablished then [Sent s ""] else []
                     | _ => [] end)
           (ob_calls ob ++ filter (is_sent_state SEstablished) (ob_wire ob)).

(* ---------- C07 ---------- *)
(* the wire-level automaton: order of stages, single id, violation => failed+reason then silence and close *)
Record wst := { w_last : option sses; w_viol : bool; w_abort : bool; w_dead : bool; w_est : bool }.
Definition wire_step (conf : sconf) (w : wst) (e : ev) : option wst :=
  match e with
  | Took i =>
      if w_dead w || w_viol w || w_abort w then None
      else if w_est w then Some w
      else match i with
           | CSes ses => Some {| w_last := w_last w; w_viol := violates conf (w_last w) ses; w_abort := false;
                                 w_dead := false; w_est := false |}
           | _ => Some {| w_last := w_last w; w_viol := false; w_abort := true; w_dead := false; w_est := false |}
           end
  | Sent s _ =>
      if w_dead w || negb (String.eqb (ss_id s) (sc_sid conf)) then None
      else if w_viol w || w_abort w then
        if state_eqb (ss_state s) SFailed && (ss_reason s || w_abort w)
        then Some {| w_last := Some s; w_viol := false; w_abort := w_abort w; w_dead := true; w_est := w_est w |} else None
      else
        let next (est : bool) (dead : bool) :=
          Some {| w_last := Some s; w_viol := false; w_abort := false; w_dead := dead; w_est := est |} in
        match ss_state s with
        | SFailed => if ss_reason s && negb (w_est w) then next false true else None
        | SNegotiating =>
            if is_offer s then match w_last w with None => next false false | Some _ => None end
            else match w_last w with Some l => if is_offer l then next false false else None | None => None end
        | SAuthenticating =>
            match ss_round s, w_last w with
            | None, None => next false false
            | None, Some l => if is_confirm l then next false false else None
            | Some _, Some l => if is_auth l then next false false else None
            | Some _, None => None
            end
        | SEstablished => match w_last w with Some l => if is_auth l && negb (w_est w) then next true false else None | None => None end
        | SFinished => if w_est w then next true true else None
        | _ => None
        end
  | _ => Some w
  end.
Fixpoint wire_run (conf : sconf) (w : wst) (t : list ev) : option wst :=
  match t with
  | [] => Some w
  | e :: r => match wire_step conf w e with Some w' => wire_run conf w' r | None => None end
  end.
Definition c07_check (c : scase) : bool :=
  match wire_run (k_conf c) {| w_last := None; w_viol := false; w_abort := false; w_dead := false; w_est := false |}
                 (ob_wire (k_obs c)) with
  | None => false
  | Some w => negb (w_viol w) && (if w_dead w || w_abort w then ob_closed (k_obs c) else true)
  end.
Definition c07_proj (ob : obs) : list ev * bool := (ob_wire ob, ob_closed ob).

(* ---------- C09 ---------- *)
(* offers are configured-and-supported; a confirmation repeats the peer's choice from the offer;
   everything after a confirmation travels under the confirmed encryption *)
Fixpoint c09_wire (conf : sconf) (t : list ev) (inp : option cin) (offer : option sses) (confirmed : option string) : bool :=
  match t with
  | [] => true
  | Took i :: r => c09_wire conf r (Some i) offer confirmed
  | Sent s enc :: r =>
      (match confirmed with Some e => String.eqb enc e | None => true end) &&
      (if state_eqb (ss_state s) SNegotiating then
         if is_offer s then
           strs_eqb (ss_encopts s) (neg_enc conf) && strs_eqb (ss_compopts s) (neg_comp conf) &&
           c09_wire conf r inp (Some s) confirmed
         else
           match offer, inp with
           | Some l, Some (CSes ses) =>
               String.eqb (ss_enc s) (cs_enc ses) && String.eqb (ss_comp s) (cs_comp ses) &&
               mem (ss_enc s) (ss_encopts l) && mem (ss_comp s) (ss_compopts l) &&
               c09_wire conf r inp offer (Some (ss_enc s))
           | _, _ => false
           end
       else c09_wire conf r inp offer confirmed)
  | _ :: r => c09_wire conf r inp offer confirmed
  end.
Definition last_confirmed (t : list ev) : option string :=
  fold_left (fun acc e => match e with Sent s _ => if is_confirm s then Some (ss_enc s) else acc | _ => acc end) t None.
Definition c09_check (c : scase) : bool :=
  let ob := k_obs c in
  c09_wire (k_conf c) (ob_wire ob) None None None &&
  (* credentials are looked at only under the confirmed encryption *)
  match last_confirmed (ob_wire ob) with
  | Some e => forallb (fun ev => match ev with AuthCall _ _ _ enc | RegCall _ enc => String.eqb enc e | _ => true end) (ob_calls ob)
  | None => true
  end.
Definition c09_proj (ob : obs) : list ev :=
  filter (fun e => match e with Took _ => true | Sent s _ => negb (terminal (ss_state s)) | _ => false end) (ob_wire ob) ++
  filter (fun e => match e with AuthCall _ _ _ _ | RegCall _ _ => true | _ => false end) (ob_calls ob).

(* ---------- C10 ---------- *)
Definition c10_ev_ok (conf : sconf) (e : ev) : bool :=
  match e with
  | AuthCall _ _ _ enc | RegCall _ enc => mem enc (sc_enc conf)
  | Sent s enc => if state_eqb (ss_state s) SAuthenticating || state_eqb (ss_state s) SEstablished
                  then mem enc (sc_enc conf) else true
  | _ => true
  end.
Definition c10_check_gen (conf : sconf) (ob : obs) : bool :=
  if c10_pre conf
  then forallb (c10_ev_ok conf) (ob_wire ob) && forallb (c10_ev_ok conf) (ob_calls ob)
  else true.
Definition c10_check (c : scase) : bool := c10_check_gen (k_conf c) (k_obs c).
Definition c10_proj (ob : obs) : list (nat * string) :=
  flat_map (fun e => match e with
                     | AuthCall _ _ _ enc => [(0, enc)] | RegCall _ enc => [(1, enc)]
                     | Sent s enc => if state_eqb (ss_state s) SAuthenticating then [(2, enc)]
                                     else if state_eqb (ss_state s) SEstablished then [(3, enc)] else []
                     | _ => [] end) (ob_calls ob ++ ob_wire ob).

(* ---------- C14 ---------- *)
Definition aborted (t : list ev) : bool :=
  existsb (fun e => match e with Took (CSes _) => false | Took _ => true | _ => false end) t.
Definition c14_check (c : scase) : bool :=
  let ob := k_obs c in
  if has_est (ob_wire ob) then true
  else
    (* never established: no callbacks; whatever ended, failed or was aborted is closed and not served any more *)
    negb (existsb (fun e => match e with EstCb | FinCb => true | _ => false end) (ob_calls ob)) &&
    (if ob_ended ob then ob_closed ob else true) &&
    (if existsb (is_sent_state SFailed) (ob_wire ob) || aborted (ob_wire ob) then ob_closed ob && ob_ended ob else true).
Definition c14_proj (ob : obs) : list ev * bool * bool :=
  if has_est (ob_wire ob) then ([], true, true)
  else (filter (fun e => match e with EstCb | FinCb => true | _ => false end) (ob_calls ob), ob_closed ob, ob_ended ob).

(* ---------- C06, receive side ---------- *)
Fixpoint c06_calls (t : list ev) (estcb : bool) (fin : bool) (inp : option cin) : bool :=
  match t with
  | [] => true
  | Took i :: r => c06_calls r estcb fin (Some i)
  | EstCb :: r => c06_calls r true fin inp
  | FinCb :: r => c06_calls r estcb true inp
  | Dispatch :: r => estcb && negb fin && match inp with Some CData => true | _ => false end && c06_calls r estcb fin inp
  | _ :: r => c06_calls r estcb fin inp
  end.
(* a data envelope before establishment: was any Took CData seen before the established envelope *)
Fixpoint data_before_est (t : list ev) : bool :=
  match t with
  | [] => false
  | Took CData :: _ => true
  | Sent s _ :: r => if state_eqb (ss_state s) SEstablished then false else data_before_est r
  | _ :: r => data_before_est r
  end.
Definition c06_check (c : scase) : bool :=
  let ob := k_obs c in
  c06_calls (ob_calls ob) false false None &&
  (if data_before_est (ob_wire ob)
   then negb (has_est (ob_wire ob)) && negb (existsb (fun e => match e with Dispatch => true | _ => false end) (ob_calls ob)) &&
        ob_closed ob && ob_ended ob
   else true).
Definition c06_proj (ob : obs) : list ev * bool :=
  (filter (fun e => match e with Dispatch | EstCb | FinCb | Took CData => true | _ => false end) (ob_calls ob),
   if data_before_est (ob_wire ob) then ob_closed ob && ob_ended ob else true).

(* boolean equalities for the projections *)
Definition evs_eqb := list_eqb ev_eqb.
Definition pair_nat_str_eqb (a b : nat * string) : bool := Nat.eqb (fst a) (fst b) && String.eqb (snd a) (snd b).

(* ---------- abrupt peers (C14, C03) ----------
   a peer that sends one session envelope over a real transport of a real Server and vanishes at once: the callback
   counters and the goroutine census are compared with Model B's run over [that envelope; end of stream] under the
   configuration the scenario uses (guest scheme, everyone is allowed, encryption and compression "none") *)
Definition abrupt_conf (k : tkind) : sconf :=
  {| sc_comp := ["none"]; sc_enc := ["none"]; sc_schemes := ["guest"]; sc_kind := k; sc_tls_ok := false; sc_sid := "SID" |}.
Definition allow_all : oracle := {| o_auth := fun _ _ _ _ => ARole; o_reg := fun f => RNode (100 + f) |}.
Definition count_ev (p : ev -> bool) (t : list ev) : nat := List.length (filter p t).
Definition abrupt_model (k : tkind) (first : cses) : nat * nat * bool :=
  let r := handle_channel s_repaired (abrupt_conf k) allow_all [CSes first; CEof] in
  (count_ev (fun e => match e with EstCb => true | _ => false end) (rr_trace r),
   count_ev (fun e => match e with FinCb => true | _ => false end) (rr_trace r),
   rr_handler_ended r).


(* ---------- a peer that vanishes while Authenticate is deciding (C14) ----------
   the peer goes through the handshake up to presenting plain credentials and closes the connection while the
   server's Authenticate callback has not answered yet; the callback then answers with [verdict].  Model B's run
   over [new; those credentials; end of stream]: Authenticate is asked once, and for every verdict but a known
   role no callback announces a session.  (For a known role what happens next depends on whether the transport
   still accepts the established envelope - a socket does, the in-process transport does not - so only the
   pairing of the callbacks is compared there.) *)
Definition vanish_conf (k : tkind) : sconf :=
  {| sc_comp := ["none"]; sc_enc := ["none"]; sc_schemes := ["plain"]; sc_kind := k; sc_tls_ok := false; sc_sid := "SID" |}.
Definition vanish_script : list cin :=
  [CSes {| cs_id := ""; cs_state := SNew; cs_enc := ""; cs_comp := ""; cs_scheme := ""; cs_cred := None; cs_from := 0 |};
   CSes {| cs_id := "SID"; cs_state := SAuthenticating; cs_enc := ""; cs_comp := ""; cs_scheme := "plain";
           cs_cred := Some 1; cs_from := 1 |};
   CEof].
Definition vanish_model (k : tkind) (verdict : ares) : nat * nat * bool * nat :=
  let r := handle_channel s_repaired (vanish_conf k) {| o_auth := fun _ _ _ _ => verdict; o_reg := fun f => RNode (100 + f) |}
             vanish_script in
  (count_ev (fun e => match e with EstCb => true | _ => false end) (rr_trace r),
   count_ev (fun e => match e with FinCb => true | _ => false end) (rr_trace r),
   rr_handler_ended r,
   count_ev (fun e => match e with AuthCall _ _ _ _ => true | _ => false end) (rr_trace r)).
