(* Correspondence for C17: several real clients on one real Server.  Every
   handler invocation records the three context values and replies through the
   Sender it was given, echoing them; every client records what it receives.
   Strings (session ids, node addresses) are interned by the harness into
   numbers: equal numbers <-> equal strings. *)
From Coq Require Import List Bool Arith.
Import ListNotations.
From Lime Require Import Base.Res Mux.Sessions.

Definition ctxv_eqb (a b : ctxv) : bool :=
  match a, b with (x, y, z), (x', y', z') => Nat.eqb x x' && Nat.eqb y y' && Nat.eqb z z' end.
Definition wr_eqb (a b : wr) : bool := ctxv_eqb (fst a) (fst b) && Nat.eqb (snd a) (snd b).
Fixpoint list_eqb {A} (eqb : A -> A -> bool) (a b : list A) : bool :=
  match a, b with
  | [], [] => true
  | x :: a', y :: b' => eqb x y && list_eqb eqb a' b'
  | _, _ => false
  end.

(* the handlers the harness registers: how many replies an envelope gets depends on its number *)
Definition the_handler (_ : ctxv) (e : nat) : list nat :=
  match Nat.modulo e 3 with 0 => [] | 1 => [e] | _ => [e; e + 1000] end.

Fixpoint assoc (k : nat) (t : list (nat * nat)) : nat :=
  match t with [] => 0 | (a, b) :: r => if Nat.eqb a k then b else assoc k r end.

Record case := {
  c_server : nat;                    (* the server's node *)
  c_cands : list nat;                (* candidate node presented by client i (clients connect one after the other) *)
  c_regtab : list (nat * nat);       (* the Register callback: candidate -> assigned node *)
  c_ops : list (nat * nat);          (* (client, envelope number) in the order the harness started the sends *)
  c_fin : list (nat * nat);          (* (position in c_ops, client): that client finishes its session before that op *)
  (* observed *)
  o_sids : list nat;                 (* session id announced to client i *)
  o_ctx : list ctxv;                 (* per client: (announced id, announced 'from' = server node, announced 'to' = own node) *)
  o_in : list (list wr);             (* per client: handler invocations for envelopes it sent: context seen, envelope *)
  o_out : list (list wr);            (* per client: what it received: context echoed by the handler, payload *)
}.

(* the history the harness played, as operations of the model *)
Fixpoint interleave (pos : nat) (fin : list (nat * nat)) (ops : list (nat * nat)) : list sop :=
  map (fun pc => Finish (snd pc)) (filter (fun pc => Nat.eqb (fst pc) pos) fin) ++
  match ops with
  | [] => []
  | (i, e) :: r => Recv i e :: interleave (S pos) fin r
  end.
Definition history (c : case) : list sop :=
  map Connect (c_cands c) ++ interleave 0 (c_fin c) (c_ops c).

Definition ids_of (c : case) (i : nat) : nat := nth i (o_sids c) 0.
Definition reg_of (c : case) (cand _ : nat) : nat := assoc cand (c_regtab c).

Definition obs_t := (list ctxv * list (list wr) * list (list wr))%type.
Definition obs (c : case) : obs_t := (o_ctx c, o_in c, o_out c).

(* ---- what the model says: run all sessions together ---- *)
Definition model (c : case) : obs_t :=
  let st := srun (c_server c) (ids_of c) (reg_of c) the_handler (history c) in
  let per := map (fun i => nth_error (sessions st) i) (seq 0 (length (c_cands c))) in
  (map (fun o => match o with Some s => ctx_of s | None => (0, 0, 0) end) per,
   map (fun o => match o with Some s => s_in s | None => [] end) per,
   map (fun o => match o with Some s => s_out s | None => [] end) per).

(* ---- what the property says: each client's view computed from its own operations only ---- *)
Definition spec (c : case) : obs_t :=
  let n := length (c_cands c) in
  (map (spec_ctx (c_server c) (ids_of c) (reg_of c) (history c)) (seq 0 n),
   map (spec_in (c_server c) (ids_of c) (reg_of c) (history c)) (seq 0 n),
   map (spec_out (c_server c) (ids_of c) (reg_of c) the_handler (history c)) (seq 0 n)).

Fixpoint nodupb (l : list nat) : bool :=
  match l with [] => true | x :: r => negb (existsb (Nat.eqb x) r) && nodupb r end.

Definition obs_eqb (a b : obs_t) : bool :=
  match a, b with
  | (c1, i1, o1), (c2, i2, o2) =>
      list_eqb ctxv_eqb c1 c2 && list_eqb (list_eqb wr_eqb) i1 i2 && list_eqb (list_eqb wr_eqb) o1 o2
  end.

(* the property on an observation: the views are the per-client ones, and the ids are pairwise distinct *)
Definition check (c : case) (o : obs_t) : bool :=
  obs_eqb o (spec c) && nodupb (o_sids c) && Nat.eqb (length (o_sids c)) (length (c_cands c)).

Definition mismatches (cs : list case) : list nat := bad_indices (fun c => obs_eqb (obs c) (model c)) cs.
Definition violations (cs : list case) : list nat := bad_indices (fun c => check c (obs c)) cs.
