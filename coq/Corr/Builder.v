(* Correspondence for Model J (Hs/Builder.v): real ServerBuilders driven by sequences of calls, their
   configurations read back after every call, the Authenticate function that Build installed probed with every
   kind of authentication object, and Servers built that way serving scripted peers (shared by C03 and C10). *)
From Coq Require Import List Bool Arith String.
Import ListNotations.
From Lime Require Import Base.Res Hs.Types Hs.Server Hs.Monitor Hs.Builder Corr.HsServer Corr.HsChecks.
Open Scope string_scope.
Open Scope list_scope.

(* the authenticator functions the harness installs: one fixed function of (scheme, name of the function,
   identity, secret), the same in Go (harness/cmd/limeobs/builder.go: userFn) *)
Definition userfn (kind f ident secret round : nat) : ares :=
  if Nat.eqb secret ident then ARole
  else if Nat.eqb secret (ident + 1) then (if Nat.eqb round 0 then ARound (10 * f + kind) else ARole)
  else if Nat.eqb secret (ident + 2) then AErr
  else AUnknown.
Definition fixed_fns : authfns :=
  {| f_plain := fun f i p r => userfn 1 f i p r; f_key := fun f i p r => userfn 2 f i p r;
     f_ext := fun f i t _ r => userfn 3 f i t r |}.
Definition fixed_reg (f : nat) : rres := RNode (100 + f).

(* which user function the dispatch calls, with which secret: (scheme 1/2/3, function, secret) *)
Definition called (cap : option nat * option nat * option nat) (a : aobj) : option (nat * nat * nat) :=
  match cap, a with
  | (Some f, _, _), APlain (Some p) => Some (1, f, p)
  | (_, Some f, _), AKey (Some p) => Some (2, f, p)
  | (_, _, Some f), AExternal t _ => Some (3, f, t)
  | _, _ => None
  end.

Record probe := {
  p_builder : nat; p_ident : nat; p_obj : aobj;
  p_res : ares;                              (* what Authenticate returned *)
  p_called : option (nat * nat * nat)        (* the user function it called, if any *)
}.
Definition snap := list (list string * list string * list string).   (* per builder: compression, encryption, schemes *)

Inductive bcase :=
| KWorld (ops : list wop) (snaps : list snap) (probes : list probe)
| KBuilt (ops : list bop) (k : tkind) (tls_ok : bool) (script : list cin) (ob : obs).

Definition ares_eqb (a b : ares) : bool :=
  match a, b with
  | ARole, ARole | AUnknown, AUnknown | AErr, AErr => true
  | ARound x, ARound y => Nat.eqb x y
  | _, _ => false
  end.
Definition triple_eqb (a b : list string * list string * list string) : bool :=
  match a, b with (x, y, z), (x', y', z') => strs_eqb x x' && strs_eqb y y' && strs_eqb z z' end.
Definition snap_eqb : snap -> snap -> bool := list_eqb triple_eqb.
Definition called_eqb (a b : option (nat * nat * nat)) : bool :=
  match a, b with
  | Some (x, y, z), Some (x', y', z') => Nat.eqb x x' && Nat.eqb y y' && Nat.eqb z z'
  | None, None => true
  | _, _ => false
  end.

Definition snap_of (w : list builder) : snap := map (fun b => (b_comp b, b_enc b, b_schemes b)) w.
Definition model_snaps (ops : list wop) : list snap :=
  map (fun n => snap_of (wrun (firstn (S n) ops))) (seq 0 (List.length ops)).
Definition probe_agrees (w : list builder) (p : probe) : bool :=
  match nth_error w (p_builder p) with
  | Some b =>
      match b_built b with
      | Some cap => ares_eqb (dispatch fixed_fns cap (is_uuid (p_ident p)) (p_ident p) (p_obj p) 0) (p_res p) &&
                    called_eqb (called cap (p_obj p)) (p_called p)
      | None => ares_eqb ARole (p_res p) && called_eqb None (p_called p)
      end
  | None => false
  end.
Definition built_conf (ops : list bop) (k : tkind) (tls_ok : bool) : sconf := builder_conf (brun ops) k tls_ok.
Definition built_oracle (ops : list bop) : oracle := builder_oracle fixed_fns (brun ops) fixed_reg.
Definition built_model (ops : list bop) (k : tkind) (tls_ok : bool) (script : list cin) : obs :=
  project (handle_channel s_repaired (built_conf ops k tls_ok) (built_oracle ops) script).

(* ---- direct checks on the observations (no model) ---- *)
(* C03: a known role comes only from the guest rule for a UUID name or from a call of an installed authenticator
   of the presented object's scheme, asked about the presented identity and secret, that answered with a role *)
Definition probe_ok (p : probe) : bool :=
  match p_res p with
  | ARole =>
      match p_obj p with
      | AGuest => is_uuid (p_ident p)
      | APlain (Some s) => match p_called p with Some (1, f, s') => Nat.eqb s s' && ares_eqb (userfn 1 f (p_ident p) s 0) ARole | _ => false end
      | AKey (Some s) => match p_called p with Some (2, f, s') => Nat.eqb s s' && ares_eqb (userfn 2 f (p_ident p) s 0) ARole | _ => false end
      | AExternal t _ => match p_called p with Some (3, f, s') => Nat.eqb t s' && ares_eqb (userfn 3 f (p_ident p) t 0) ARole | _ => false end
      | _ => false
      end
  | _ => true
  end.
(* only servers that were built are probed *)
Definition built_somewhere (ops : list wop) (i : nat) : bool :=
  existsb (fun o => match o with WOp j BBuild => Nat.eqb i j | _ => false end) ops.

(* C10: an EncryptionOptions call sets exactly that builder's policy, and no call touches another builder's *)
Fixpoint policy_ok (ops : list wop) (prev : snap) (snaps : list snap) : bool :=
  match ops, snaps with
  | [], [] => true
  | o :: r, s :: t =>
      (match o with
       | WNew => list_eqb triple_eqb (firstn (List.length prev) s) prev
       | WOp i bo =>
           Nat.eqb (List.length s) (List.length prev) &&
           forallb (fun j => match nth_error prev j, nth_error s j with
                             | Some a, Some b =>
                                 if Nat.eqb i j then
                                   match bo, b with
                                   | BEnc (x :: l), (_, e, _) => strs_eqb e (x :: l)
                                   | _, _ => true
                                   end
                                 else triple_eqb a b
                             | _, _ => false
                             end) (seq 0 (List.length prev))
       end) && policy_ok r s t
  | _, _ => false
  end.

Definition world_agrees (ops : list wop) (snaps : list snap) (probes : list probe) : bool :=
  list_eqb snap_eqb snaps (model_snaps ops) && forallb (probe_agrees (wrun ops)) probes.

Definition agrees_c03 (c : bcase) : bool :=
  match c with
  | KWorld ops snaps probes => world_agrees ops snaps probes
  | KBuilt ops k tls script ob => evs_eqb (c03_proj ob) (c03_proj (built_model ops k tls script))
  end.
Definition check_c03 (c : bcase) : bool :=
  match c with
  | KWorld ops _ probes => forallb probe_ok probes && forallb (fun p => built_somewhere ops (p_builder p)) probes
  | KBuilt ops k tls _ ob => c03_check_gen (built_conf ops k tls) (built_oracle ops) ob
  end.
Definition agrees_c10 (c : bcase) : bool :=
  match c with
  | KWorld ops snaps probes => world_agrees ops snaps probes
  | KBuilt ops k tls script ob => list_eqb pair_nat_str_eqb (c10_proj ob) (c10_proj (built_model ops k tls script))
  end.
Definition check_c10 (c : bcase) : bool :=
  match c with
  | KWorld ops snaps _ => policy_ok ops [] snaps
  | KBuilt ops k tls _ ob => c10_check_gen (built_conf ops k tls) ob
  end.
