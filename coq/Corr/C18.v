(* Correspondence for C18: scenarios run against a real Server (each in its own
   process), compared with Model G (Life/Server.v, Life/Handler.v) and checked
   against the property's clauses. *)
From Coq Require Import List Bool Arith.
Import ListNotations.
From Lime Require Import Base.Res Life.Handler Life.Server.

Inductive skind := KStartStop | KGated | KSessions.
Inductive phase := PhIdle | PhTraffic | PhRacing | PhStalled | PhAuthFail | PhFinished | PhGone | PhConnecting.

Record case := {
  k_kind : skind;
  k_listeners : nat;
  k_held : nat;                         (* gated: transports an acceptor held while Close ran (one per iteration) *)
  k_clients : list (phase * nat);       (* phase at the moment of Close, envelopes sent and handled before it *)
  (* observed *)
  o_panic : bool;
  o_returned : bool;
  o_result : serve_result;
  o_listeners_left : nat;
  o_goroutines_left : nat;
  o_released : nat;                     (* held transports whose client saw the connection closed *)
  o_stray : nat;                        (* callbacks / handler runs for a session id no client was given *)
  o_traces : list (list hev)
}.

Definition hev_eqb (a b : hev) : bool :=
  match a, b with
  | EvEst, EvEst | EvRun, EvRun | EvSentFinished, EvSentFinished | EvClosed, EvClosed | EvFin, EvFin => true
  | _, _ => false
  end.
Fixpoint list_eqb {A} (eqb : A -> A -> bool) (a b : list A) : bool :=
  match a, b with
  | [], [] => true
  | x :: a', y :: b' => eqb x y && list_eqb eqb a' b'
  | _, _ => false
  end.
Definition res_eqb (a b : serve_result) : bool :=
  match a, b with
  | ErrServerClosed, ErrServerClosed | ListenerError, ListenerError | NoError, NoError => true
  | _, _ => false
  end.
Definition has (e : hev) (t : list hev) : bool := existsb (hev_eqb e) t.

(* ---- the model's run of one scenario ---- *)

(* Close runs to completion, then every goroutine of the group sees the cancellation *)
Definition shutdown_schedule (n : nat) : list glabel :=
  [CloseCall] ++ repeat CloseStep (1 + n) ++ map AcceptCtx (seq 0 n) ++ [ConsCtx; MainReturn].
(* an acceptor holds a transport while Close runs, then its select sees the cancellation *)
Definition held_schedule (n : nat) : list glabel :=
  [AcceptGet 0; CloseCall] ++ repeat CloseStep (1 + n) ++ [SendCtx 0] ++ map AcceptCtx (seq 0 n) ++ [ConsCtx; MainReturn].

Definition server_final (c : case) : gst :=
  match k_held c with
  | O => grun true 4 (ginit (repeat 0 (k_listeners c))) (shutdown_schedule (k_listeners c))
  | S _ => grun true 4 (ginit (1 :: repeat 0 (k_listeners c - 1))) (held_schedule (k_listeners c))
  end.

Definition runs_of (t : list hev) : nat := count_ev EvRun t.

(* the serving goroutine's schedule for a client in a given phase; [t] is the observed trace,
   used only as the oracle for what the scheduler decided in the racy phases *)
Definition handler_labels (p : phase) (msgs : nat) (t : list hev) : list (bool * hlabel) :=
  let est := [(false, LHandshake HsEstablished); (false, LStep)] in
  let run n := repeat (false, LEnvelope true) n in
  let fin_by_close := [(true, LCtxDone); (true, LStep); (true, LStep)] in
  match p with
  | PhIdle | PhTraffic => est ++ run msgs ++ fin_by_close
  | PhRacing => est ++ run (runs_of t) ++ fin_by_close
  | PhStalled => [(true, LHandshake HsError); (true, LStep)]
  | PhAuthFail => [(false, LHandshake HsFailed); (false, LStep)]
  | PhFinished => est ++ run msgs ++ [(false, LPeerFinishing); (false, LStep); (false, LStep)]
  | PhGone => est ++ run msgs ++ [(false, LPeerGone); (false, LStep); (false, LStep)]
  | PhConnecting => if has EvEst t then est ++ run (runs_of t) ++ fin_by_close
                    else [(true, LHandshake HsError); (true, LStep)]
  end.

Definition model_trace (pc : phase * nat) (t : list hev) : list hev :=
  h_evs (hrun hinit (handler_labels (fst pc) (snd pc) t)).

Fixpoint model_traces (cl : list (phase * nat)) (ts : list (list hev)) : list (list hev) :=
  match cl with
  | [] => []
  | pc :: cl' => model_trace pc (hd [] ts) :: model_traces cl' (tl ts)
  end.

(* observation: panic, returned, result, listeners left, goroutines left, released, stray, traces *)
Definition obs_t := (bool * bool * serve_result * nat * nat * nat * nat * list (list hev))%type.
Definition obs (c : case) : obs_t :=
  (o_panic c, o_returned c, o_result c, o_listeners_left c, o_goroutines_left c, o_released c, o_stray c, o_traces c).

Definition model (c : case) : obs_t :=
  let s := server_final c in
  (panicked s,
   match main s with MReturned _ => true | MWait => false end,
   match main s with MReturned r => r | MWait => NoError end,
   length (filter negb (lclosed s)),
   0,
   match k_kind c with KGated => released s * k_held c | _ => 0 end,
   0,
   model_traces (k_clients c) (o_traces c)).

Definition obs_eqb (a b : obs_t) : bool :=
  match a, b with
  | (p1, r1, e1, l1, g1, rl1, s1, t1), (p2, r2, e2, l2, g2, rl2, s2, t2) =>
      Bool.eqb p1 p2 && Bool.eqb r1 r2 && res_eqb e1 e2 && Nat.eqb l1 l2 && Nat.eqb g1 g2 &&
      Nat.eqb rl1 rl2 && Nat.eqb s1 s2 && list_eqb (list_eqb hev_eqb) t1 t2
  end.

(* ---- the property on an observation ---- *)
Definition established_at_close (p : phase) : bool :=
  match p with PhIdle | PhTraffic | PhRacing => true | _ => false end.

Fixpoint traces_ok (cl : list (phase * nat)) (ts : list (list hev)) : bool :=
  match cl, ts with
  | [], [] => true
  | (p, m) :: cl', t :: ts' =>
      (* the callback discipline, on a complete trace: Established once before any handler run,
         Finished once afterwards, for exactly the sessions that were established; the connection closed *)
      mon_final (mon_run t) &&
      (* a session established when Close ran has its client observe the finished session *)
      (if established_at_close p then has EvEst t && has EvSentFinished t else true) &&
      (* a handshake that never completed announces nothing *)
      (match p with PhStalled | PhAuthFail => negb (has EvEst t) | _ => true end) &&
      traces_ok cl' ts'
  | _, _ => false
  end.

Definition check (c : case) (o : obs_t) : bool :=
  match o with
  | (pan, ret, res, lleft, gleft, rel, stray, ts) =>
      negb pan && ret && res_eqb res ErrServerClosed && Nat.eqb lleft 0 && Nat.eqb gleft 0 &&
      Nat.eqb stray 0 && Nat.eqb rel (k_held c) && traces_ok (k_clients c) ts
  end.

Definition mismatches (cs : list case) : list nat := bad_indices (fun c => obs_eqb (obs c) (model c)) cs.
Definition violations (cs : list case) : list nat := bad_indices (fun c => check c (obs c)) cs.
