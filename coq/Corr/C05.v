(* Correspondence and executable property check for C05. *)
From Coq Require Import List Arith Bool.
Import ListNotations.
From Lime Require Import Base.Res Chan.CmdTable.

(* what the harness does, one quiescent action at a time *)
Inductive haction :=
| HStart (r id : nat)          (* start ProcessCommand number r with command id; wait until sent or rejected *)
| HRespond (id tag : nat)      (* the peer sends a response; wait until it was matched or surfaced *)
| HCancel (r : nat)            (* end the context of call r; wait until it returned *)
| HGate (g : nat).             (* a gate action (hold/release a goroutine at a named point): no abstract effect *)

Inductive ores := OResp (id tag : nat) | OCtx | ORejected | OPending | OIdle.   (* OIdle: the call was never started *)

Record case := {
  k_ids : list nat;                 (* command id of call 0, 1, ... *)
  k_responses : list resp;          (* the responses the peer sends, in order *)
  k_labels : list label;            (* the schedule the history corresponds to *)
  k_history : list haction;
  k_gated : bool;                   (* gates were used: the history is not sequential at action granularity *)
  k_burst : bool;                   (* all calls were released at one instant against a peer that answers every request
                                       it receives; k_labels is a schedule that explains the outcome *)
  o_results : list ores;            (* per call *)
  o_stream : list resp;             (* what surfaced on the response stream *)
  o_table : nat                     (* entries left in the pending table *)
}.

Definition ores_eqb (a b : ores) : bool :=
  match a, b with
  | OResp i t, OResp i' t' => Nat.eqb i i' && Nat.eqb t t'
  | OCtx, OCtx | ORejected, ORejected | OPending, OPending | OIdle, OIdle => true
  | _, _ => false
  end.
Definition resp_eqb (a b : resp) : bool := Nat.eqb (fst a) (fst b) && Nat.eqb (snd a) (snd b).
Fixpoint list_eqb {A} (eqb : A -> A -> bool) (a b : list A) : bool :=
  match a, b with
  | [], [] => true
  | x :: a', y :: b' => eqb x y && list_eqb eqb a' b'
  | _, _ => false
  end.

Definition ores_of (q : req) : ores :=
  match q_res q with
  | RResp x => OResp (fst x) (snd x)
  | RCtx => OCtx
  | RRejected => ORejected
  | RNone => match q_pc q with P0 => OIdle | _ => OPending end
  end.

(* ---- the model ---- *)
Definition model (c : case) : list ores * list resp * nat :=
  let s := run true (init (k_ids c) (k_responses c)) (k_labels c) in
  (map ores_of (reqs s), stream s, length (table s)).
Definition agrees (c : case) : bool :=
  let '(r, st, t) := model c in
  list_eqb ores_eqb (o_results c) r && list_eqb resp_eqb (o_stream c) st && Nat.eqb (o_table c) t.
Definition mismatches (cs : list case) : list nat := bad_indices agrees cs.

(* ---- the specification: a map from command id to the one waiting call ---- *)
Record spec := { sp_pending : list (nat * nat); sp_results : list ores; sp_stream : list resp }.
Fixpoint set_nth {A} (l : list A) (i : nat) (x : A) : list A :=
  match l, i with
  | [], _ => []
  | _ :: l', O => x :: l'
  | y :: l', S i' => y :: set_nth l' i' x
  end.
Definition spec_step (s : spec) (a : haction) : spec :=
  match a with
  | HStart r id =>
      match lookup id (sp_pending s) with
      | Some _ => {| sp_pending := sp_pending s; sp_results := set_nth (sp_results s) r ORejected; sp_stream := sp_stream s |}
      | None => {| sp_pending := (id, r) :: sp_pending s; sp_results := set_nth (sp_results s) r OPending; sp_stream := sp_stream s |}
      end
  | HRespond id tag =>
      match lookup id (sp_pending s) with
      | Some r => {| sp_pending := remove_key id (sp_pending s); sp_results := set_nth (sp_results s) r (OResp id tag);
                     sp_stream := sp_stream s |}
      | None => {| sp_pending := sp_pending s; sp_results := sp_results s; sp_stream := sp_stream s ++ [(id, tag)] |}
      end
  | HCancel r =>
      if existsb (fun kv => Nat.eqb (snd kv) r) (sp_pending s)
      then {| sp_pending := filter (fun kv => negb (Nat.eqb (snd kv) r)) (sp_pending s);
              sp_results := set_nth (sp_results s) r OCtx; sp_stream := sp_stream s |}
      else s
  | HGate _ => s
  end.
Definition spec_run (c : case) : spec :=
  fold_left spec_step (k_history c)
            {| sp_pending := []; sp_results := map (fun _ => OIdle) (k_ids c); sp_stream := [] |}.

(* ---- the property on an observation ---- *)
Fixpoint count_resp (x : resp) (l : list resp) : nat :=
  match l with [] => 0 | y :: r => (if resp_eqb x y then 1 else 0) + count_resp x r end.
Definition delivered (c : case) : list resp :=
  flat_map (fun o => match o with OResp i t => [(i, t)] | _ => [] end) (o_results c).
Definition pending_count (c : case) : nat :=
  length (filter (fun o => match o with OPending => true | _ => false end) (o_results c)).

Definition check (c : case) : bool :=
  (* a call completes only with a response bearing its own id *)
  Nat.eqb (length (o_results c)) (length (k_ids c)) &&
  forallb (fun oi => match fst oi with OResp i' _ => Nat.eqb (snd oi) i' | _ => true end) (combine (o_results c) (k_ids c)) &&
  (* no response is handed to two places, none is fabricated *)
  forallb (fun x => Nat.leb (count_resp x (delivered c ++ o_stream c)) 1 && Nat.leb 1 (count_resp x (k_responses c)))
          (delivered c ++ o_stream c) &&
  (* the table holds exactly the calls still waiting *)
  Nat.eqb (o_table c) (pending_count c) &&
  (* a burst: the peer answered every request it received, so every call was refused or completed with a response,
     and nothing surfaced on the stream *)
  (if k_burst c
   then forallb (fun o => match o with OResp _ _ | ORejected => true | _ => false end) (o_results c) &&
        match o_stream c with [] => true | _ => false end
   else true) &&
  (* sequential histories behave exactly like the map *)
  (if k_gated c then true
   else let s := spec_run c in
        list_eqb ores_eqb (o_results c) (sp_results s) && list_eqb resp_eqb (o_stream c) (sp_stream s)).
Definition violations (cs : list case) : list nat := bad_indices check cs.
