From Coq Require Import List Bool Ascii String ZArith Lia.
Import ListNotations.
From Lime Require Import Base.Str Base.Res Base.Json Codec.Types Codec.TextForms Codec.TextFormsFacts
  Codec.Doc Codec.DocFacts Codec.Envelope Codec.EnvelopeFacts Codec.Eqb Codec.Registry Corr.Codec Corr.C01.
Open Scope string_scope.

Lemma model_typed_ok cx e :
  wf_env cx e = true -> edepth e <= case_fuel -> model_typed cx e = Ok e.
Proof.
  intros Hw Hd. destruct (roundtrip_typed cx case_fuel e Hw Hd) as (j & Hj & Hdj).
  unfold model_typed. rewrite Hj. exact Hdj.
Qed.
Lemma model_any_ok cx e :
  wf_any cx e = true -> edepth e <= case_fuel -> model_any cx e = Ok e.
Proof.
  intros Hw Hd. destruct (roundtrip_any cx case_fuel e Hw Hd) as (j & Hj & Hdj).
  unfold model_any. rewrite Hj. exact Hdj.
Qed.

Lemma parse_identity_noat s : has_char c_at (fst (parse_identity s)) = false /\ has_char c_at (snd (parse_identity s)) = false.
Proof. unfold parse_identity. cbn. split; apply split_piece_nth. Qed.

Lemma registry_model_ok ops : forall reg, registry_ok ops (rrun reg ops) reg = true.
Proof.
  induction ops as [|o r IH]; intros reg; cbn; [reflexivity|].
  destruct o as [t|t j]; cbn; [apply IH|].
  unfold lookup_kind. destruct (existsb (Nat.eqb t) reg) eqn:E; cbn.
  - rewrite Nat.eqb_refl. cbn. apply IH.
  - destruct j; cbn; apply IH.
Qed.

(* the model's own behaviour meets the property's check on every case *)
Theorem model_meets_check c : check (model_case c) = true.
Proof.
  destruct c as [e uris oj ot oy ow|src n os ob|src nm dm os ob|src m os ob|s o b|ops k st]; cbn [model_case check].
  - set (cx := mk_cx uris). destruct (Nat.leb (edepth e) case_fuel) eqn:Hf.
    + apply Nat.leb_le in Hf. rewrite !andb_true_r.
      destruct (wf_env cx e) eqn:Hw.
      * rewrite (model_typed_ok cx e Hw Hf), res_env_eqb_refl. cbn [andb].
        destruct (wf_any cx e) eqn:Ha; auto.
        rewrite (model_any_ok cx e Ha Hf), res_env_eqb_refl. destruct ow; cbn; auto. apply env_eqb_refl.
      * cbn [andb]. destruct (wf_any cx e) eqn:Ha; auto.
        unfold wf_any in Ha. rewrite Hw in Ha. discriminate.
    + rewrite !andb_false_r. reflexivity.
  - destruct src as [s|].
    + cbn [orb]. rewrite parse_node_str by apply parse_node_wf. apply node_eqb_refl.
    + cbn [orb]. destruct (wf_node n) eqn:Hw; auto. rewrite parse_node_str by exact Hw. apply node_eqb_refl.
  - destruct src as [s|]; cbn [orb].
    + destruct (parse_identity_noat s) as [H1 H2]. rewrite parse_identity_str by assumption.
      unfold pair_str_eqb, pair_eqb. cbn. rewrite !String.eqb_refl. reflexivity.
    + cbn [fst snd]. destruct (negb (has_char c_at nm) && negb (has_char c_at dm)) eqn:Hw; auto.
      apply andb_prop in Hw. destruct Hw as [H1 H2]. apply negb_true_iff in H1, H2.
      rewrite parse_identity_str by assumption.
      unfold pair_str_eqb, pair_eqb. cbn. rewrite !String.eqb_refl. reflexivity.
  - destruct src as [s|]; cbn [orb].
    + destruct (parse_mt repaired s) as [x|] eqn:Hp; auto.
      rewrite parse_mt_str by (eapply parse_mt_wf; eauto). cbn. apply mt_eqb_refl.
    + destruct m as [x|]; auto. destruct (wf_mt x) eqn:Hw; auto.
      rewrite parse_mt_str by exact Hw. cbn. apply mt_eqb_refl.
  - destruct o; cbn; auto. apply String.eqb_refl.
  - rewrite registry_model_ok, andb_true_r. induction st as [|b st IH]; cbn; auto.
Qed.
