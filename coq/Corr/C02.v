(* Correspondence and executable property check for C02. *)
From Coq Require Import List Bool Ascii String ZArith.
Import ListNotations.
From Lime Require Import Base.Str Base.Res Base.Json Codec.Types Codec.TextForms Codec.Doc Codec.Envelope
  Codec.EnvelopeFacts Codec.Eqb Corr.Codec.
Open Scope string_scope.

Definition kinds : list ekind := [KindMsg; KindNot; KindReq; KindResp; KindSes].

Inductive case :=
(* a JSON value tree handed (serialised) to the five typed decoders and to the
   TCP receive path; for every accepted result, the envelope is encoded again
   and decoded again by the same decoder.  in_domain = false marks trees with
   two members matching one struct field, which the model does not cover. *)
| CTree (in_domain : bool) (j : json) (uris : uri_table)
        (o_typed : list (res env)) (o_any : res env)
        (o_re_typed : list (option (res env))) (o_re_any : option (res env))
(* a byte string that is not a JSON value (truncation, concatenation, fuzz):
   only "some decoder panicked" and "some accepted result did not re-decode equal" are observed *)
| CBytes (n : nat) (o_panic : bool) (o_unstable : bool)
(* the same bytes as one text frame into a real websocketTransport.Receive (run in a process of its own: a panic in
   the goroutine Receive starts ends the process, which is reported as Panic); the tree is given when the input
   is one the model covers *)
| CWs (in_domain : bool) (j : option (json * uri_table)) (o_ws : res env).

Definition re_of (cx : ctx) (dec : json -> res env) (r : res env) : option (res env) :=
  match r with Ok e => Some (bind (encode e) dec) | _ => None end.

Definition model_case (c : case) : case :=
  match c with
  | CTree dom j uris _ _ _ _ =>
      let cx := mk_cx uris in
      let typed := map (fun k => decode_typed cx case_fuel k j) kinds in
      let any := decode_any cx case_fuel j in
      CTree dom j uris typed any
            (map (fun k => re_of cx (decode_typed cx case_fuel k) (decode_typed cx case_fuel k j)) kinds)
            (re_of cx (decode_any cx case_fuel) any)
  | CBytes n _ _ => CBytes n false false
  | CWs dom (Some (j, uris)) _ => CWs dom (Some (j, uris)) (decode_any (mk_cx uris) case_fuel j)
  | CWs dom None _ => CWs dom None Err
  end.

Definition case_eqb (a b : case) : bool :=
  match a, b with
  | CTree dom _ _ t y rt ry, CTree _ _ _ t' y' rt' ry' =>
      negb dom ||
      (list_eqb res_env_eqb t t' && res_env_eqb y y' &&
       list_eqb (option_eqb res_env_eqb) rt rt' && option_eqb res_env_eqb ry ry')
  | CBytes _ p u, CBytes _ p' u' => Bool.eqb p p' && Bool.eqb u u'
  | CWs dom _ r, CWs _ _ r' => negb dom || res_env_eqb r r'
  | _, _ => false
  end.

(* accepted => re-encoding decodes equal; never a panic *)
Definition stable_ok (r : res env) (re : option (res env)) : bool :=
  match r with
  | Ok e => match re with Some x => res_env_eqb x (Ok e) | None => false end
  | Err => true
  | Panic => false
  end.
Fixpoint forall2b {A B} (f : A -> B -> bool) (a : list A) (b : list B) : bool :=
  match a, b with
  | [], [] => true
  | x :: a', y :: b' => f x y && forall2b f a' b'
  | _, _ => false
  end.

Definition check (c : case) : bool :=
  match c with
  | CTree _ _ _ t y rt ry => Nat.eqb (List.length t) 5 && forall2b stable_ok t rt && stable_ok y ry
  | CBytes _ p u => negb p && negb u
  | CWs _ _ r => negb (is_panic r)
  end.

(* the URI table respects the assumed law of net/url *)
Definition table_idem (t : uri_table) : bool :=
  forallb (fun kv => match snd kv with
                     | Some u => option_eqb String.eqb (uri_oracle t u) (Some u)
                     | None => true
                     end) t.

Definition mismatches (cs : list case) : list nat := bad_indices (fun c => case_eqb c (model_case c)) cs.
Definition violations (cs : list case) : list nat := bad_indices check cs.
