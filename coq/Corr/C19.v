(* Correspondence for C19: a real Client against a scripted server; the harness
   performs an action, waits for quiescence, observes.  The model is run on the
   same actions under a fair deterministic schedule (settle). *)
From Coq Require Import List Bool Arith.
Import ListNotations.
From Lime Require Import Base.Res Life.Client.

Inductive action :=
| ASendOp                 (* the application sends a message (bounded by a context) *)
| AFaultOp (f : fault)    (* the scripted server injects a fault on the newest session *)
| ADown                   (* the server becomes unreachable for new connections *)
| AUp                     (* ... and reachable again *)
| APush                   (* the server sends an envelope on the newest session: does a handler see it? *)
| AWatch.                 (* nothing happens for a while: is the listener goroutine burning CPU? *)

Inductive aobs :=
| OSend (ok received : bool)   (* the operation reported success / the newest session received the envelope *)
| OPush (delivered : bool)
| OWatch (spinning : bool)
| ONone.

(* an observation and the number of sessions the server has seen once things settled *)
Record case := {
  k_actions : list action;
  o_init : nat;                      (* sessions after start-up (the listener connects on its own) *)
  o_obs : list (aobs * nat)
}.

Definition last_send (s : cst) : option bool :=
  fold_left (fun acc e => match e with SendOk _ => Some true | SendErr => Some false | _ => acc end) (evs s) None.

(* the event log is only ever appended to and never read by a step: each action starts from an empty one *)
Definition clear (s : cst) : cst :=
  {| cur := cur s; next_sid := next_sid s; reach := reach s; lock := lock s; lis := lis s; app := app s; evs := [] |}.

Definition act (fixed : bool) (s0 : cst) (a : action) : cst * aobs :=
  let s := clear s0 in
  match a with
  | ASendOp =>
      let s1 := settle fixed (cstep fixed s LAppStart) in
      let s2 := match app s1 with AIdle => s1 | _ => settle fixed (cstep fixed s1 LAppGiveUp) end in
      (s2, match last_send s2 with
           | Some true => OSend true true
           | _ => OSend false false
           end)
  | AFaultOp f => (settle fixed (cstep fixed s (LFault f)), ONone)
  | ADown => (settle fixed (cstep fixed s (LReach false)), ONone)
  | AUp => (settle fixed (cstep fixed s (LReach true)), ONone)
  | APush => (s, OPush (cur_live s && match lis s with LListening => true | _ => false end))
  | AWatch => (s, OWatch (Nat.ltb (spins s) (spins (crun fixed s [LListener; LListener; LListener]))))
  end.

Fixpoint sim (fixed : bool) (s : cst) (acts : list action) : list (aobs * nat) :=
  match acts with
  | [] => []
  | a :: r => let (s', o) := act fixed s a in (o, next_sid s') :: sim fixed s' r
  end.

Definition start (fixed : bool) : cst := settle fixed cinit.
Definition model (c : case) : nat * list (aobs * nat) := (next_sid (start true), sim true (start true) (k_actions c)).

(* ---- the property, as a specification that does not mention goroutines, locks or channels:
   the client has a live session or not; a server is reachable or not ---- *)
Record spec_st := { sp_reach : bool; sp_live : bool; sp_n : nat }.

Definition spec_act (s : spec_st) (a : action) : spec_st * aobs :=
  match a with
  | AFaultOp _ =>
      if sp_live s then
        if sp_reach s then ({| sp_reach := true; sp_live := true; sp_n := S (sp_n s) |}, ONone)   (* a fresh session at once *)
        else ({| sp_reach := false; sp_live := false; sp_n := sp_n s |}, ONone)
      else (s, ONone)
  | ASendOp =>
      if sp_live s then (s, OSend true true)
      else if sp_reach s then ({| sp_reach := true; sp_live := true; sp_n := S (sp_n s) |}, OSend true true)
      else (s, OSend false false)
  | ADown => ({| sp_reach := false; sp_live := sp_live s; sp_n := sp_n s |}, ONone)
  | AUp => if sp_live s then ({| sp_reach := true; sp_live := true; sp_n := sp_n s |}, ONone)
           else ({| sp_reach := true; sp_live := true; sp_n := S (sp_n s) |}, ONone)   (* the listener reconnects on its own *)
  | APush => (s, OPush (sp_live s))          (* never deaf while it holds a session *)
  | AWatch => (s, OWatch false)              (* never busy *)
  end.

Fixpoint spec_sim (s : spec_st) (acts : list action) : list (aobs * nat) :=
  match acts with
  | [] => []
  | a :: r => let (s', o) := spec_act s a in (o, sp_n s') :: spec_sim s' r
  end.

Definition spec (c : case) : nat * list (aobs * nat) :=
  (1, spec_sim {| sp_reach := true; sp_live := true; sp_n := 1 |} (k_actions c)).

Definition aobs_eqb (a b : aobs) : bool :=
  match a, b with
  | OSend x y, OSend x' y' => Bool.eqb x x' && Bool.eqb y y'
  | OPush x, OPush x' => Bool.eqb x x'
  | OWatch x, OWatch x' => Bool.eqb x x'
  | ONone, ONone => true
  | _, _ => false
  end.
Fixpoint list_eqb {A} (eqb : A -> A -> bool) (a b : list A) : bool :=
  match a, b with
  | [], [] => true
  | x :: a', y :: b' => eqb x y && list_eqb eqb a' b'
  | _, _ => false
  end.
Definition obs_eqb (a b : nat * list (aobs * nat)) : bool :=
  Nat.eqb (fst a) (fst b) &&
  list_eqb (fun x y => aobs_eqb (fst x) (fst y) && Nat.eqb (snd x) (snd y)) (snd a) (snd b).

Definition obs (c : case) := (o_init c, o_obs c).
Definition check (c : case) (o : nat * list (aobs * nat)) : bool := obs_eqb o (spec c).

Definition mismatches (cs : list case) : list nat := bad_indices (fun c => obs_eqb (obs c) (model c)) cs.
Definition violations (cs : list case) : list nat := bad_indices (fun c => check c (obs c)) cs.
