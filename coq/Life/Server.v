(* Model G — Server.ListenAndServe / acceptTransports / consumeTransports / Close
   (server.go) as a labelled transition system: one acceptor goroutine per
   listener, the transport consumer, and the Close call, sharing the errgroup
   context, the listeners and the transport queue.  A select is a
   nondeterministic choice among its ready branches, so every ready branch is a
   label; disabled labels are no-ops and every list of labels is a schedule. *)
From Coq Require Import List Arith Bool Lia.
Import ListNotations.

Inductive aerr := ECtx | EListener.                 (* context error / a listener's own error *)
Inductive apc := AAccept | ASend | ADone (e : aerr). (* in Accept / holding a transport at the select / returned *)
Inductive cpc := CSelect | CDone.

Record gst := {
  srv_cancelled : bool;         (* Close has cancelled the server's context *)
  first_err : option aerr;      (* errgroup: the first error returned, which cancels the group context *)
  lclosed : list bool;          (* per listener: closed *)
  pending : list nat;           (* per listener: connections waiting to be accepted *)
  acc : list apc;               (* per listener: its acceptor goroutine *)
  queue : nat;                  (* transports in srv.transportChan *)
  qclosed : bool;               (* srv.transportChan was closed (only the tree as found does that) *)
  cons : cpc;
  handlers : nat;               (* handleChannel goroutines started *)
  close_todo : nat;             (* steps of Close still to do; 0 = not called or finished *)
  close_called : bool;
  panicked : bool
}.

Inductive glabel :=
| AcceptGet (i : nat)      (* Accept returns a transport *)
| AcceptCtx (i : nat)      (* Accept sees the (group) context cancelled *)
| AcceptClosed (i : nat)   (* Accept sees its listener closed *)
| SendQ (i : nat)          (* the select sends the transport to the queue *)
| SendCtx (i : nat)        (* the select sees the context cancelled *)
| ConsTake                 (* the consumer takes a transport and starts its handler *)
| ConsCtx                  (* the consumer sees the context cancelled *)
| ConsNil                  (* the consumer receives from the CLOSED queue: a nil transport *)
| CloseCall                (* Close is called *)
| CloseStep.               (* Close performs its next step *)

Definition grp_cancelled (s : gst) : bool := srv_cancelled s || match first_err s with Some _ => true | None => false end.

Fixpoint set_nth {A} (l : list A) (i : nat) (x : A) : list A :=
  match l, i with
  | [], _ => []
  | _ :: r, O => x :: r
  | y :: r, S i' => y :: set_nth r i' x
  end.

Definition with_acc (s : gst) (i : nat) (p : apc) (ferr : option aerr) (pend : list nat) (q : nat) (pan : bool) : gst :=
  {| srv_cancelled := srv_cancelled s; first_err := ferr; lclosed := lclosed s; pending := pend; acc := set_nth (acc s) i p;
     queue := q; qclosed := qclosed s; cons := cons s; handlers := handlers s; close_todo := close_todo s;
     close_called := close_called s; panicked := pan |}.
Definition first (s : gst) (e : aerr) : option aerr := match first_err s with Some x => Some x | None => Some e end.

Definition apc_is (p : option apc) (q : apc) : bool :=
  match p, q with
  | Some AAccept, AAccept | Some ASend, ASend => true
  | _, _ => false
  end.

(* fixed = true: the repaired Close does not close the transport queue (D14) *)
Definition gstep (fixed : bool) (backlog : nat) (s : gst) (l : glabel) : gst :=
  if panicked s then s else
  match l with
  | AcceptGet i =>
      if apc_is (nth_error (acc s) i) AAccept && Nat.ltb 0 (nth i (pending s) 0)
      then with_acc s i ASend (first_err s) (set_nth (pending s) i (nth i (pending s) 0 - 1)) (queue s) false else s
  | AcceptCtx i =>
      if apc_is (nth_error (acc s) i) AAccept && grp_cancelled s
      then with_acc s i (ADone ECtx) (first s ECtx) (pending s) (queue s) false else s
  | AcceptClosed i =>
      if apc_is (nth_error (acc s) i) AAccept && nth i (lclosed s) false
      then with_acc s i (ADone EListener) (first s EListener) (pending s) (queue s) false else s
  | SendQ i =>
      if apc_is (nth_error (acc s) i) ASend then
        if qclosed s then with_acc s i ASend (first_err s) (pending s) (queue s) true      (* send on closed channel *)
        else if Nat.ltb (queue s) (S backlog) then with_acc s i AAccept (first_err s) (pending s) (S (queue s)) false
        else s
      else s
  | SendCtx i =>
      if apc_is (nth_error (acc s) i) ASend && grp_cancelled s
      then with_acc s i (ADone ECtx) (first s ECtx) (pending s) (queue s) false else s
  | ConsTake =>
      match cons s, queue s with
      | CSelect, S q =>
          {| srv_cancelled := srv_cancelled s; first_err := first_err s; lclosed := lclosed s; pending := pending s; acc := acc s;
             queue := q; qclosed := qclosed s; cons := CSelect; handlers := S (handlers s); close_todo := close_todo s;
             close_called := close_called s; panicked := false |}
      | _, _ => s
      end
  | ConsCtx =>
      match cons s with
      | CSelect =>
          if grp_cancelled s then
            {| srv_cancelled := srv_cancelled s; first_err := first_err s; lclosed := lclosed s; pending := pending s; acc := acc s;
               queue := queue s; qclosed := qclosed s; cons := CDone; handlers := handlers s; close_todo := close_todo s;
               close_called := close_called s; panicked := false |}
          else s
      | CDone => s
      end
  | ConsNil =>
      match cons s, queue s with
      | CSelect, O =>
          if qclosed s then
            {| srv_cancelled := srv_cancelled s; first_err := first_err s; lclosed := lclosed s; pending := pending s; acc := acc s;
               queue := 0; qclosed := true; cons := CSelect; handlers := handlers s; close_todo := close_todo s;
               close_called := close_called s; panicked := true |}   (* NewServerChannel(nil): transport cannot be nil *)
          else s
      | _, _ => s
      end
  | CloseCall =>
      if close_called s then s else
      {| srv_cancelled := srv_cancelled s; first_err := first_err s; lclosed := lclosed s; pending := pending s; acc := acc s;
         queue := queue s; qclosed := qclosed s; cons := cons s; handlers := handlers s;
         close_todo := 1 + length (lclosed s) + (if fixed then 0 else 1); close_called := true; panicked := false |}
  | CloseStep =>
      match close_todo s with
      | O => s
      | S k =>
          let n := length (lclosed s) in
          let extra := if fixed then 0 else 1 in
          (* order: cancel; close listener 0..n-1; (as found) close the queue *)
          if Nat.eqb (S k) (1 + n + extra) then
            {| srv_cancelled := true; first_err := first_err s; lclosed := lclosed s; pending := pending s; acc := acc s;
               queue := queue s; qclosed := qclosed s; cons := cons s; handlers := handlers s; close_todo := k;
               close_called := true; panicked := false |}
          else if Nat.ltb extra (S k) || fixed then
            {| srv_cancelled := srv_cancelled s; first_err := first_err s; lclosed := set_nth (lclosed s) (n + extra - S k) true;
               pending := pending s; acc := acc s; queue := queue s; qclosed := qclosed s; cons := cons s;
               handlers := handlers s; close_todo := k; close_called := true; panicked := false |}
          else
            {| srv_cancelled := srv_cancelled s; first_err := first_err s; lclosed := lclosed s; pending := pending s; acc := acc s;
               queue := queue s; qclosed := true; cons := cons s; handlers := handlers s; close_todo := k;
               close_called := true; panicked := false |}
      end
  end.

Definition grun (fixed : bool) (backlog : nat) (s : gst) (ls : list glabel) : gst := fold_left (gstep fixed backlog) ls s.

Definition ginit (clients : list nat) : gst :=
  {| srv_cancelled := false; first_err := None; lclosed := map (fun _ => false) clients; pending := clients;
     acc := map (fun _ => AAccept) clients; queue := 0; qclosed := false; cons := CSelect; handlers := 0;
     close_todo := 0; close_called := false; panicked := false |}.

(* every serving goroutine has returned *)
Definition all_done (s : gst) : bool :=
  forallb (fun p => match p with ADone _ => true | _ => false end) (acc s) &&
  match cons s with CDone => true | CSelect => false end.

Inductive serve_result := ErrServerClosed | ListenerError | NoError.
(* what ListenAndServe returns once eg.Wait returns *)
Definition serve_result_of (fixed : bool) (s : gst) : serve_result :=
  if fixed && srv_cancelled s then ErrServerClosed
  else match first_err s with
       | Some ECtx => ErrServerClosed
       | Some EListener => ListenerError
       | None => NoError
       end.
