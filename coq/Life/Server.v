(* Model G, part 2 — Server.ListenAndServe / acceptTransports / consumeTransports /
   Close (server.go) as a labelled transition system: one acceptor goroutine per
   listener, the transport consumer, the Close call, and ListenAndServe's own
   goroutine waiting for the group.  They share the server's cancellation, the
   errgroup's first error, the listeners and the transport queue.

   A select is a nondeterministic choice among its ready branches, so every
   ready branch is a label; disabled labels are no-ops and every list of labels
   is a schedule.  [fixed = false] is the tree as found (Close closes the queue,
   the result is taken from the group's first error, a transport held at
   shutdown is dropped); [fixed = true] is the repaired code.  The goroutines
   serving accepted transports are Life/Handler.v.  Definitions only. *)
From Coq Require Import List Arith Bool.
Import ListNotations.

Inductive aerr := ECtx | EListener.                 (* context error / a listener's own closing error *)
Inductive apc := AAccept | ASend | ADone.           (* in Accept / holding a transport at the select / returned *)
Inductive cpc := CSelect | CDone.
Inductive serve_result := ErrServerClosed | ListenerError | NoError.
Inductive mpc := MWait | MReturned (r : serve_result).

Record gst := {
  cancelled : bool;             (* Close has cancelled the server's own context *)
  first_err : option aerr;      (* errgroup: the first error returned (it cancels the group context) *)
  lclosed : list bool;          (* per listener: closed *)
  pending : list nat;           (* per listener: connections waiting to be accepted *)
  acc : list apc;               (* per listener: its acceptor goroutine *)
  queue : nat;                  (* transports in srv.transportChan *)
  qclosed : bool;               (* srv.transportChan was closed (only the tree as found does that) *)
  cons : cpc;
  served : nat;                 (* transports handed to a handleChannel goroutine *)
  released : nat;               (* transports closed without being served *)
  leaked : nat;                 (* transports dropped: neither served nor closed *)
  close_todo : nat;             (* steps of Close still to do *)
  close_called : bool;
  main : mpc;
  panicked : bool
}.

Inductive glabel :=
| AcceptGet (i : nat)      (* Accept returns a transport *)
| AcceptCtx (i : nat)      (* Accept sees the (group) context cancelled *)
| AcceptClosed (i : nat)   (* Accept sees its listener closed *)
| SendQ (i : nat)          (* the select sends the transport to the queue *)
| SendCtx (i : nat)        (* the select sees the context cancelled *)
| ConsTake                 (* the consumer takes a transport and starts its handler *)
| ConsCtx                  (* the consumer sees the context cancelled *)
| ConsNil                  (* the consumer receives from the CLOSED queue: a nil transport *)
| CloseCall                (* Close is called *)
| CloseStep                (* Close performs its next step *)
| MainReturn.              (* eg.Wait returns (all goroutines of the group ended); ListenAndServe returns *)

Definition grp_cancelled (s : gst) : bool :=
  cancelled s || match first_err s with Some _ => true | None => false end.

Fixpoint set_nth {A} (l : list A) (i : nat) (x : A) : list A :=
  match l, i with
  | [], _ => []
  | _ :: r, O => x :: r
  | y :: r, S i' => y :: set_nth r i' x
  end.

Definition first (s : gst) (e : aerr) : option aerr := match first_err s with Some x => Some x | None => Some e end.

Definition apc_is (p : option apc) (q : apc) : bool :=
  match p, q with
  | Some AAccept, AAccept | Some ASend, ASend | Some ADone, ADone => true
  | _, _ => false
  end.

Definition all_done (s : gst) : bool :=
  forallb (fun p => match p with ADone => true | _ => false end) (acc s) &&
  match cons s with CDone => true | CSelect => false end.

(* what ListenAndServe returns once eg.Wait has returned *)
Definition serve_result_of (fixed : bool) (s : gst) : serve_result :=
  if fixed && cancelled s then ErrServerClosed
  else match first_err s with
       | Some ECtx => ErrServerClosed
       | Some EListener => ListenerError
       | None => NoError
       end.

(* generic update: the fields a step may change *)
Definition upd (s : gst) (ferr : option aerr) (pend : list nat) (a : list apc) (q : nat) (c : cpc)
               (sv rl lk : nat) (pan : bool) : gst :=
  {| cancelled := cancelled s; first_err := ferr; lclosed := lclosed s; pending := pend; acc := a;
     queue := q; qclosed := qclosed s; cons := c; served := sv; released := rl; leaked := lk;
     close_todo := close_todo s; close_called := close_called s; main := main s; panicked := pan |}.

Definition upd_close (s : gst) (canc : bool) (lc : list bool) (qc : bool) (todo : nat) (called : bool) : gst :=
  {| cancelled := canc; first_err := first_err s; lclosed := lc; pending := pending s; acc := acc s;
     queue := queue s; qclosed := qc; cons := cons s; served := served s; released := released s; leaked := leaked s;
     close_todo := todo; close_called := called; main := main s; panicked := panicked s |}.

Definition gstep (fixed : bool) (backlog : nat) (s : gst) (l : glabel) : gst :=
  if panicked s then s else
  match l with
  | AcceptGet i =>
      if apc_is (nth_error (acc s) i) AAccept && Nat.ltb 0 (nth i (pending s) 0) && negb (nth i (lclosed s) false)
      then upd s (first_err s) (set_nth (pending s) i (nth i (pending s) 0 - 1)) (set_nth (acc s) i ASend)
                 (queue s) (cons s) (served s) (released s) (leaked s) false
      else s
  | AcceptCtx i =>
      if apc_is (nth_error (acc s) i) AAccept && grp_cancelled s
      then upd s (first s ECtx) (pending s) (set_nth (acc s) i ADone) (queue s) (cons s) (served s) (released s) (leaked s) false
      else s
  | AcceptClosed i =>
      if apc_is (nth_error (acc s) i) AAccept && nth i (lclosed s) false
      then upd s (first s EListener) (pending s) (set_nth (acc s) i ADone) (queue s) (cons s) (served s) (released s) (leaked s) false
      else s
  | SendQ i =>
      if apc_is (nth_error (acc s) i) ASend then
        if qclosed s then upd s (first_err s) (pending s) (acc s) (queue s) (cons s) (served s) (released s) (leaked s) true  (* send on closed channel *)
        else if Nat.leb (queue s) backlog   (* room in the buffer, or (backlog 0) the hand-off slot *)
        then upd s (first_err s) (pending s) (set_nth (acc s) i AAccept) (S (queue s)) (cons s) (served s) (released s) (leaked s) false
        else s
      else s
  | SendCtx i =>
      if apc_is (nth_error (acc s) i) ASend && grp_cancelled s
      then if fixed
           then upd s (first s ECtx) (pending s) (set_nth (acc s) i ADone) (queue s) (cons s) (served s) (S (released s)) (leaked s) false
           else upd s (first s ECtx) (pending s) (set_nth (acc s) i ADone) (queue s) (cons s) (served s) (released s) (S (leaked s)) false
      else s
  | ConsTake =>
      match cons s, queue s with
      | CSelect, S q => upd s (first_err s) (pending s) (acc s) q CSelect (S (served s)) (released s) (leaked s) false
      | _, _ => s
      end
  | ConsCtx =>
      match cons s with
      | CSelect => if grp_cancelled s
                   then upd s (first_err s) (pending s) (acc s) (queue s) CDone (served s) (released s) (leaked s) false
                   else s
      | CDone => s
      end
  | ConsNil =>
      match cons s, queue s with
      | CSelect, O => if qclosed s
                      then upd s (first_err s) (pending s) (acc s) 0 CSelect (served s) (released s) (leaked s) true  (* NewServerChannel(nil) *)
                      else s
      | _, _ => s
      end
  | CloseCall =>
      if close_called s then s
      else upd_close s (cancelled s) (lclosed s) (qclosed s) (1 + length (lclosed s) + (if fixed then 0 else 1)) true
  | CloseStep =>
      match close_todo s with
      | O => s
      | S k =>
          let n := length (lclosed s) in
          let extra := if fixed then 0 else 1 in
          (* order: cancel; close listener 0 .. n-1; (as found) close the queue *)
          if Nat.eqb (S k) (1 + n + extra) then upd_close s true (lclosed s) (qclosed s) k true
          else if Nat.ltb extra (S k) then upd_close s (cancelled s) (set_nth (lclosed s) (n + extra - S k) true) (qclosed s) k true
          else upd_close s (cancelled s) (lclosed s) true k true
      end
  | MainReturn =>
      match main s with
      | MWait =>
          if all_done s then
            {| cancelled := cancelled s; first_err := first_err s; lclosed := lclosed s; pending := pending s; acc := acc s;
               queue := 0; qclosed := qclosed s; cons := cons s; served := served s;
               released := if fixed then released s + queue s else released s;
               leaked := if fixed then leaked s else leaked s + queue s;
               close_todo := close_todo s; close_called := close_called s;
               main := MReturned (serve_result_of fixed s); panicked := false |}
          else s
      | MReturned _ => s
      end
  end.

Definition grun (fixed : bool) (backlog : nat) (s : gst) (ls : list glabel) : gst := fold_left (gstep fixed backlog) ls s.

(* [clients]: per listener, the connections that will arrive *)
Definition ginit (clients : list nat) : gst :=
  {| cancelled := false; first_err := None; lclosed := map (fun _ => false) clients; pending := clients;
     acc := map (fun _ => AAccept) clients; queue := 0; qclosed := false; cons := CSelect;
     served := 0; released := 0; leaked := 0; close_todo := 0; close_called := false; main := MWait; panicked := false |}.

Definition sum (l : list nat) : nat := fold_right Nat.add 0 l.
Definition held (s : gst) : nat := length (filter (fun p => match p with ASend => true | _ => false end) (acc s)).

(* a decreasing measure: every effective step lowers it *)
Definition aweight (p : apc) : nat := match p with ASend => 3 | AAccept => 1 | ADone => 0 end.
Definition measure (s : gst) : nat :=
  4 * sum (pending s) + sum (map aweight (acc s)) + queue s +
  (match cons s with CSelect => 1 | CDone => 0 end) +
  close_todo s + (if close_called s then 0 else 3 + length (lclosed s)) +
  (match main s with MWait => 1 | MReturned _ => 0 end).
