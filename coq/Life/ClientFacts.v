(* Proofs about Model H (Life/Client.v): no busy iteration, truthful sends,
   recovery after any fault history (repaired code); deaf and busy-looping
   client (tree as found). *)
From Coq Require Import List Bool Arith Lia.
Import ListNotations.
From Lime Require Import Life.Client.

(* the build lock is held exactly by the goroutine that is building *)
Definition lock_ok (s : cst) : bool :=
  match lock s, lis s, app s with
  | None, LBuilding, _ | None, _, ABuilding => false
  | None, _, _ => true
  | Some Listener, LBuilding, ABuilding => false
  | Some Listener, LBuilding, _ => true
  | Some Listener, _, _ => false
  | Some App, LBuilding, _ => false
  | Some App, _, ABuilding => true
  | Some App, _, _ => false
  end.

Lemma lock_ok_step fixed s l : lock_ok s = true -> lock_ok (cstep fixed s l) = true.
Proof.
  destruct s as [c n r lk li a e]. unfold lock_ok, cstep, mk, build, cur_usable. cbn.
  intros H.
  destruct l; destruct lk as [[]|]; destruct li; destruct a; cbn in *; try discriminate; auto;
    destruct c as [ch|]; cbn; auto;
    repeat match goal with
    | |- context [if ?c then _ else _] => destruct c
    end; cbn; auto.
Qed.

Lemma lock_ok_run fixed ls s : lock_ok s = true -> lock_ok (crun fixed s ls) = true.
Proof. revert s; induction ls as [|l ls IH]; intros s H; cbn; auto. apply IH, lock_ok_step, H. Qed.

(* ---- repaired code: a reusable channel has a live receiver; no busy iteration ---- *)
Theorem usable_is_live c : usable true c = true -> live c = true.
Proof. unfold usable, live. auto. Qed.

Lemma evs_step fixed s l : exists e, evs (cstep fixed s l) = evs s ++ e.
Proof.
  unfold cstep, mk, build.
  destruct l; try (exists []; rewrite app_nil_r; reflexivity);
    repeat match goal with
    | |- context [match ?c with _ => _ end] => destruct c eqn:?
    end; cbn; try (eexists; reflexivity); try (exists []; rewrite app_nil_r; reflexivity).
Qed.

Lemma spins_step s l : spins (cstep true s l) = spins s.
Proof.
  destruct s as [c n r lk li a e]. unfold spins, cstep, mk, build, cur_usable, usable. cbn.
  destruct l; auto; destruct li; destruct a; destruct lk as [[]|]; destruct c as [[sid st conn rcv]|]; cbn; auto;
    try (destruct st, conn, rcv; cbn; rewrite ?filter_app, ?app_length; cbn; try lia; destruct r; cbn;
         rewrite ?filter_app, ?app_length; cbn; lia);
    try (destruct r; cbn; rewrite ?filter_app, ?app_length; cbn; lia);
    try (rewrite ?filter_app, ?app_length; cbn; lia).
Qed.

Theorem never_spins ls s : spins (crun true s ls) = spins s.
Proof. revert s; induction ls as [|l ls IH]; intros s; cbn [crun fold_left]; auto. fold (crun true (cstep true s l) ls). rewrite IH. apply spins_step. Qed.

(* a send reports success only when written to the current, established session *)
Theorem send_ok_truthful fixed s sid :
  In (SendOk sid) (evs (cstep fixed s LApp)) -> ~ In (SendOk sid) (evs s) ->
  exists c, cur s = Some c /\ established c = true /\ c_sid c = sid.
Proof.
  destruct s as [c n r lk li a e]. unfold cstep, mk, build, cur_usable. cbn. intros Hin Hnot.
  destruct a; cbn in Hin; try contradiction.
  - (* AGet *) destruct c as [ch|]; cbn in Hin;
      repeat match type of Hin with
             | context [if ?x then _ else _] => destruct x
             | context [match ?x with _ => _ end] => destruct x
             end; cbn in Hin; rewrite ?app_nil_r in Hin; contradiction.
  - (* ABuilding *) destruct c as [ch|]; cbn in Hin;
      repeat match type of Hin with context [if ?x then _ else _] => destruct x end;
      cbn in Hin; rewrite ?app_nil_r in Hin; try contradiction;
      apply in_app_or in Hin; destruct Hin as [Hin|[Hin|[]]]; try contradiction; discriminate.
  - (* ASend *) destruct c as [ch|]; cbn in Hin.
    + destruct (established ch) eqn:E; cbn in Hin; apply in_app_or in Hin; destruct Hin as [Hin|[Hin|[]]];
        try contradiction; try discriminate. inversion Hin; subst. eauto.
    + apply in_app_or in Hin; destruct Hin as [Hin|[Hin|[]]]; try contradiction; discriminate.
Qed.

(* ---- recovery: whatever happened before, once a server is reachable and the faults stop,
   a few fair rounds leave the client listening on a live, freshly usable channel with no
   operation pending and the lock free ---- *)
Definition recovered (s : cst) : bool :=
  cur_live s && match lis s with LListening => true | _ => false end &&
  match app s with AIdle => true | _ => false end &&
  match lock s with None => true | _ => false end.

Theorem recovers s : lock_ok s = true -> reach s = true -> recovered (settle true s) = true.
Proof.
  destruct s as [c n r lk l a e]. cbn [reach]. intros Hl ->.
  destruct c as [[sid st conn rcv]|]; [destruct st, conn, rcv|];
    destruct lk as [[]|]; destruct l; destruct a; try discriminate Hl; reflexivity.
Qed.

(* and it stays so while nothing else happens *)
Theorem recovered_stable s l :
  recovered s = true -> (match l with LFault _ | LReach _ | LAppStart => False | _ => True end) ->
  cstep true s l = s.
Proof.
  destruct s as [c n r lk li a e].
  destruct c as [[sid st conn rcv]|]; [|discriminate].
  destruct st, conn, rcv, li, a, lk as [[]|]; try discriminate.
  intros _. destruct l; intros Hl; try contradiction; reflexivity.
Qed.

(* every reachable state of the client satisfies the lock discipline *)
Theorem reachable_lock_ok fixed ls : lock_ok (crun fixed cinit ls) = true.
Proof. apply lock_ok_run. reflexivity. Qed.

Corollary recovers_from_any_history ls :
  reach (crun true cinit ls) = true -> recovered (settle true (crun true cinit ls)) = true.
Proof. intros H. apply recovers; [apply reachable_lock_ok | exact H]. Qed.

(* sessions are numbered in the order they are established: ids never repeat *)
Lemma next_sid_mono fixed s l : next_sid s <= next_sid (cstep fixed s l).
Proof.
  destruct s as [c n r lk li a e]. unfold cstep, mk, build, cur_usable. cbn.
  destruct l; cbn; auto; destruct li; destruct a; destruct lk as [[]|]; destruct c as [ch|]; cbn; auto;
    repeat match goal with
    | |- context [if ?x then _ else _] => destruct x
    end; cbn; auto.
Qed.

(* ---- the tree as found ---- *)
Definition deaf_history : list clabel := [LListener; LListener; LListener; LFault FGarbage; LListener].

(* after undecodable input the channel is still considered reusable although nothing reads it *)
Theorem as_found_deaf :
  let s := crun false cinit deaf_history in
  cur_usable false s = true /\ cur_live s = false /\ recovered (settle false s) = false.
Proof. vm_compute. repeat split. Qed.

(* ... and the listener goroutine spins: every further iteration returns at once, unboundedly *)
Lemma spin_once s c :
  cur s = Some c -> usable false c = true -> c_rcv c = false -> lis s = LTop ->
  let s' := cstep false s LListener in
  cur s' = Some c /\ lis s' = LTop /\ spins s' = S (spins s).
Proof.
  intros Hc Hu Hr Hl. unfold cstep, cur_usable. rewrite Hl, Hc, Hu, Hr. cbn.
  repeat split; auto. unfold spins; cbn. rewrite filter_app, app_length. cbn. lia.
Qed.

Theorem as_found_busy_loop n :
  spins (crun false cinit (deaf_history ++ repeat LListener n)) = n.
Proof.
  unfold crun. rewrite fold_left_app. fold (crun false cinit deaf_history).
  set (s0 := crun false cinit deaf_history).
  assert (H0 : exists c, cur s0 = Some c /\ usable false c = true /\ c_rcv c = false /\ lis s0 = LTop /\ spins s0 = 0).
  { eexists. vm_compute. repeat split. }
  destruct H0 as [c [Hc [Hu [Hr [Hl Hs]]]]].
  assert (G : forall n s, cur s = Some c -> lis s = LTop ->
            spins (fold_left (cstep false) (repeat LListener n) s) = n + spins s).
  { induction n0 as [|k IH]; intros s Hcs Hls; [reflexivity|].
    cbn [repeat fold_left]. destruct (spin_once s c Hcs Hu Hr Hls) as [A [B C]].
    rewrite IH by assumption. lia. }
  rewrite G by assumption. lia.
Qed.

(* the same history on the repaired code: the channel is rebuilt *)
Example fixed_same_history :
  let s := settle true (crun true cinit deaf_history) in recovered s = true /\ next_sid s = 2 /\ spins s = 0.
Proof. vm_compute. repeat split. Qed.
