(* Model H — the high-level Client (client.go): the current channel, the build
   lock, the background listener goroutine and an application goroutine doing
   send operations, under faults injected at any moment.

   channel reuse is decided by channelOK; [fixed = false] is the tree as found
   (a channel is reused while state = established and the transport reports
   connected, even if its receiver goroutine has ended), [fixed = true] the
   repaired code (the receiver must be alive too).  Which faults change the
   state, which clear "connected" and which only end the receiver is exactly
   what channel.go / tcp_transport.go do.  Disabled labels are no-ops, so every
   list of labels is a schedule.  Definitions only. *)
From Coq Require Import List Bool Arith.
Import ListNotations.

Inductive cstate := CEst | CFinished | CFailed.

Record chn := {
  c_sid : nat;          (* which session (numbered by the server in order of establishment) *)
  c_state : cstate;     (* channel.state *)
  c_conn : bool;        (* transport.Connected() *)
  c_rcv : bool          (* the receiver goroutine is alive (rcvDone not closed) *)
}.

Inductive fault :=
| FFinish      (* the server sends a finished session envelope (and closes) *)
| FFail        (* the server sends a failed session envelope (and closes) *)
| FEof         (* the connection is closed by the peer: the receiver reads EOF *)
| FReset       (* the connection breaks with an error that is not EOF *)
| FGarbage     (* bytes that are not JSON, or JSON that is no envelope *)
| FOversize    (* an envelope above the read limit *)
| FRegress.    (* a session envelope that would move the state backwards *)

(* the effect of a fault on an established channel whose receiver is reading *)
Definition hit (f : fault) (c : chn) : chn :=
  if negb (c_rcv c) then c else
  match f with
  | FFinish => {| c_sid := c_sid c; c_state := CFinished; c_conn := c_conn c; c_rcv := false |}
  | FFail => {| c_sid := c_sid c; c_state := CFailed; c_conn := c_conn c; c_rcv := false |}
  | FEof => {| c_sid := c_sid c; c_state := c_state c; c_conn := false; c_rcv := false |}
  | FReset | FGarbage | FOversize | FRegress =>
      {| c_sid := c_sid c; c_state := c_state c; c_conn := c_conn c; c_rcv := false |}
  end.

Definition established (c : chn) : bool :=
  match c_state c with CEst => c_conn c | _ => false end.
(* Client.channelOK *)
Definition usable (fixed : bool) (c : chn) : bool := established c && (if fixed then c_rcv c else true).

Inductive who := Listener | App.
Inductive lpc := LTop | LBuilding | LListening.
Inductive apc := AIdle | AGet | ABuilding | ASend.

Inductive cev :=
| Built (sid : nat)        (* a new session was established *)
| BuildFail                (* a build attempt failed (followed by the back-off sleep) *)
| ListenBlock (sid : nat)  (* the listener blocks in the dispatch loop of a live channel *)
| ListenRet                (* the dispatch loop returned because the channel ended *)
| Spin                     (* the dispatch loop returned at once and nothing changed: a busy iteration *)
| SendOk (sid : nat)       (* a send operation reported success, written to that session *)
| SendErr.

Record cst := {
  cur : option chn;
  next_sid : nat;           (* sessions established so far *)
  reach : bool;             (* a server is reachable *)
  lock : option who;
  lis : lpc;
  app : apc;
  evs : list cev
}.

Inductive clabel :=
| LFault (f : fault)
| LReach (b : bool)
| LListener               (* the listener goroutine performs its next atomic step *)
| LAppStart               (* the application starts a send operation *)
| LApp                    (* the application goroutine performs its next atomic step *)
| LAppGiveUp.             (* the operation's context ends while it waits or retries *)

Definition cur_usable (fixed : bool) (s : cst) : bool :=
  match cur s with Some c => usable fixed c | None => false end.

Definition mk (s : cst) (c : option chn) (n : nat) (lk : option who) (l : lpc) (a : apc) (e : list cev) : cst :=
  {| cur := c; next_sid := n; reach := reach s; lock := lk; lis := l; app := a; evs := evs s ++ e |}.

Definition fresh (n : nat) : chn := {| c_sid := n; c_state := CEst; c_conn := true; c_rcv := true |}.

(* one build attempt while holding the lock (the loop body of getOrBuildChannel):
   release the old channel, dial and establish; on failure sleep and retry *)
Definition build (s : cst) : option chn * nat * list cev * bool (* succeeded *) :=
  if reach s then (Some (fresh (next_sid s)), S (next_sid s), [Built (next_sid s)], true)
  else (None, next_sid s, [BuildFail], false).

Definition cstep (fixed : bool) (s : cst) (l : clabel) : cst :=
  match l with
  | LFault f =>
      match cur s with
      | Some c => mk s (Some (hit f c)) (next_sid s) (lock s) (lis s) (app s) []
      | None => s
      end
  | LReach b => {| cur := cur s; next_sid := next_sid s; reach := b; lock := lock s; lis := lis s; app := app s; evs := evs s |}
  | LListener =>
      match lis s with
      | LTop =>
          (* getOrBuildChannel: fast path, else take the build lock *)
          if cur_usable fixed s then
            match cur s with
            | Some c =>
                if c_rcv c then mk s (cur s) (next_sid s) (lock s) LListening (app s) [ListenBlock (c_sid c)]
                else (* ListenClient returns at once on the closed done signal *)
                     mk s (cur s) (next_sid s) (lock s) LTop (app s) [Spin]
            | None => s
            end
          else match lock s with
               | None => mk s (cur s) (next_sid s) (Some Listener) LBuilding (app s) []
               | Some _ => s
               end
      | LBuilding =>
          if cur_usable fixed s then mk s (cur s) (next_sid s) None LTop (app s) []
          else match build s with
               | (c, n, e, true) => mk s c n None LTop (app s) e
               | (c, n, e, false) => mk s c n (Some Listener) LBuilding (app s) e
               end
      | LListening =>
          match cur s with
          | Some c => if c_rcv c && established c then s   (* blocked on a live channel *)
                      else mk s (cur s) (next_sid s) (lock s) LTop (app s) [ListenRet]
          | None => mk s (cur s) (next_sid s) (lock s) LTop (app s) [ListenRet]
          end
      end
  | LAppStart =>
      match app s with
      | AIdle => mk s (cur s) (next_sid s) (lock s) (lis s) AGet []
      | _ => s
      end
  | LApp =>
      match app s with
      | AIdle => s
      | AGet =>
          if cur_usable fixed s then mk s (cur s) (next_sid s) (lock s) (lis s) ASend []
          else match lock s with
               | None => mk s (cur s) (next_sid s) (Some App) (lis s) ABuilding []
               | Some _ => s
               end
      | ABuilding =>
          if cur_usable fixed s then mk s (cur s) (next_sid s) None (lis s) ASend []
          else match build s with
               | (c, n, e, true) => mk s c n None (lis s) ASend e
               | (c, n, e, false) => mk s c n (Some App) (lis s) ABuilding e
               end
      | ASend =>
          (* channel.sendToTransport: ensureEstablished, then the write *)
          match cur s with
          | Some c => if established c then mk s (cur s) (next_sid s) (lock s) (lis s) AIdle [SendOk (c_sid c)]
                      else mk s (cur s) (next_sid s) (lock s) (lis s) AIdle [SendErr]
          | None => mk s (cur s) (next_sid s) (lock s) (lis s) AIdle [SendErr]
          end
      end
  | LAppGiveUp =>
      match app s with
      | AGet => mk s (cur s) (next_sid s) (lock s) (lis s) AIdle [SendErr]
      | ABuilding => mk s (cur s) (next_sid s) None (lis s) AIdle [SendErr]
      | _ => s
      end
  end.

Definition crun (fixed : bool) (s : cst) (ls : list clabel) : cst := fold_left (cstep fixed) ls s.

Definition cinit : cst :=
  {| cur := None; next_sid := 0; reach := true; lock := None; lis := LTop; app := AIdle; evs := [] |}.

(* a fair round of both goroutines, used for "after the faults stop" statements and by the
   correspondence (the harness waits for quiescence between its actions) *)
Definition round : list clabel := [LApp; LListener].
Definition settle (fixed : bool) (s : cst) : cst := crun fixed s (round ++ round ++ round ++ round ++ round ++ round).

Definition live (c : chn) : bool := established c && c_rcv c.
Definition cur_live (s : cst) : bool := match cur s with Some c => live c | None => false end.

Definition is_spin (e : cev) : bool := match e with Spin => true | _ => false end.
Definition spins (s : cst) : nat := length (filter is_spin (evs s)).
