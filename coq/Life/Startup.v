(* Model G, part 3 — ListenAndServe's start-up loop racing with Close (server.go), and what
   the listeners' own Listen / Close do in that race (in_process_transport.go,
   tcp_transport.go, websocket_transport.go).

   ListenAndServe starts its listeners one after the other; Close, which may run at any
   moment once the serve call has begun, cancels the server's context and then closes the
   listeners one after the other.  A socket listener (TCP, WebSocket) that is not started yet
   ignores Close ("not started") and its Listen succeeds even under a cancelled context; an
   in-process listener remembers that it was closed and (repaired code) refuses to start.
   [fixed = false] is the tree as found: ListenAndServe does not stop its listeners when it
   returns.  Disabled labels are no-ops: every list of labels is a schedule.  Definitions only. *)
From Coq Require Import List Arith Bool.
Import ListNotations.

Inductive lkind := LSocket | LInproc.
Record lst := { l_kind : lkind; l_started : bool; l_closed : bool }.

(* a listener that is accepting connections (holds a port / a registry entry) *)
Definition l_open (l : lst) : bool := l_started l && negb (l_closed l).

Inductive upc := UListen (i : nat) | UServing | UReturned.   (* ListenAndServe: about to start listener i / waiting for the group / returned *)

Record ust := {
  ls : list lst;
  u_cancelled : bool;
  u_main : upc;
  u_close : option nat    (* Close: None = not called or done; Some j = cancelled, about to close listener j *)
  ; u_close_called : bool
}.

Inductive ulabel := UMain | UCloseCall | UCloseStep | UGroupDone.
(* UGroupDone: every goroutine of the group has returned (they do once the context is cancelled): eg.Wait returns *)

Fixpoint upd_nth (l : list lst) (i : nat) (f : lst -> lst) : list lst :=
  match l, i with
  | [], _ => []
  | x :: r, O => f x :: r
  | x :: r, S i' => x :: upd_nth r i' f
  end.

Definition do_listen (l : lst) : lst * bool :=
  match l_kind l with
  | LSocket => ({| l_kind := LSocket; l_started := true; l_closed := false |}, true)   (* binds whatever the context says *)
  | LInproc => if l_closed l then (l, false) else ({| l_kind := LInproc; l_started := true; l_closed := false |}, true)
  end.

Definition do_close (l : lst) : lst :=
  match l_kind l with
  | LSocket => if l_started l then {| l_kind := LSocket; l_started := true; l_closed := true |} else l   (* "not started" *)
  | LInproc => {| l_kind := LInproc; l_started := l_started l; l_closed := true |}
  end.

Definition close_all (l : list lst) : list lst := map do_close l.

Definition ustep (fixed : bool) (s : ust) (l : ulabel) : ust :=
  match l with
  | UMain =>
      match u_main s with
      | UListen i =>
          match nth_error (ls s) i with
          | None => {| ls := ls s; u_cancelled := u_cancelled s; u_main := UServing; u_close := u_close s; u_close_called := u_close_called s |}
          | Some li =>
              let (li', ok) := do_listen li in
              if ok then {| ls := upd_nth (ls s) i (fun _ => li'); u_cancelled := u_cancelled s; u_main := UListen (S i);
                            u_close := u_close s; u_close_called := u_close_called s |}
              else (* Listen failed: (repaired) if the server was closed meanwhile, stop what was started and return *)
                {| ls := if fixed && u_cancelled s then close_all (ls s) else ls s; u_cancelled := u_cancelled s;
                   u_main := UReturned; u_close := u_close s; u_close_called := u_close_called s |}
          end
      | _ => s
      end
  | UGroupDone =>
      match u_main s with
      | UServing =>
          if u_cancelled s then
            (* (repaired) wait for a Close in progress, then stop the listeners again *)
            match u_close s with
            | Some _ => if fixed then s else {| ls := ls s; u_cancelled := true; u_main := UReturned; u_close := u_close s; u_close_called := u_close_called s |}
            | None => {| ls := if fixed then close_all (ls s) else ls s; u_cancelled := true; u_main := UReturned;
                         u_close := None; u_close_called := u_close_called s |}
            end
          else s
      | _ => s
      end
  | UCloseCall =>
      if u_close_called s then s
      else match u_main s with
           | UReturned => s
           | _ => {| ls := ls s; u_cancelled := true; u_main := u_main s; u_close := Some 0; u_close_called := true |}
           end
  | UCloseStep =>
      match u_close s with
      | Some j =>
          if Nat.ltb j (length (ls s))
          then {| ls := upd_nth (ls s) j do_close; u_cancelled := u_cancelled s; u_main := u_main s; u_close := Some (S j);
                  u_close_called := true |}
          else {| ls := ls s; u_cancelled := u_cancelled s; u_main := u_main s; u_close := None; u_close_called := true |}
      | None => s
      end
  end.

Definition urun (fixed : bool) (s : ust) (sched : list ulabel) : ust := fold_left (ustep fixed) sched s.

Definition uinit (kinds : list lkind) : ust :=
  {| ls := map (fun k => {| l_kind := k; l_started := false; l_closed := false |}) kinds;
     u_cancelled := false; u_main := UListen 0; u_close := None; u_close_called := false |}.

Definition none_open (s : ust) : bool := forallb (fun l => negb (l_open l)) (ls s).
(* both calls are over *)
Definition settled (s : ust) : bool :=
  match u_main s, u_close s with UReturned, None => true | _, _ => false end.
