(* Proofs about the serving goroutine (Life/Handler.v): for every handshake
   outcome, every traffic, every moment of cancellation and every schedule the
   observable events obey the callback discipline of C18/C14. *)
From Coq Require Import List Bool Arith Lia.
Import ListNotations.
From Lime Require Import Life.Handler.

Definition expected (pc : hpc) : mon :=
  match pc with
  | PHandshake | PRelease | PEstCb => MStart
  | PListen | PFinish | PSkipFinish => MEst
  | PFinCb => MClosedEst
  | PDone => MEnd
  end.

(* PDone is reached either without ever being established or after the full cycle *)
Definition hinv (s : hst) : Prop := mon_run (h_evs s) = expected (h_pc s).

Lemma mon_run_app a b : mon_run (a ++ b) = fold_left mon_step b (mon_run a).
Proof. unfold mon_run. apply fold_left_app. Qed.

Lemma hinv_step c s l : hinv s -> hinv (hstep c s l).
Proof.
  unfold hinv, hstep. intros H.
  destruct (h_pc s) eqn:P; destruct l as [r| |ok| | |]; try destruct r; try destruct ok; try destruct c;
    cbn [hgo h_evs h_pc]; rewrite ?P; try exact H;
    rewrite mon_run_app, H; reflexivity.
Qed.

Lemma hinv_run ls s : hinv s -> hinv (hrun s ls).
Proof.
  revert s; induction ls as [|[c l] ls IH]; intros s H; cbn; auto.
  apply IH, hinv_step, H.
Qed.

Theorem handler_discipline : forall ls,
  let s := hrun hinit ls in
  mon_run (h_evs s) = expected (h_pc s) /\
  mon_ok (mon_run (h_evs s)) = true /\
  (h_pc s = PDone -> mon_final (mon_run (h_evs s)) = true).
Proof.
  intros ls s. assert (H : hinv s) by (apply hinv_run; reflexivity).
  unfold hinv in H. split; [exact H|]. rewrite H. split.
  - destruct (h_pc s); reflexivity.
  - intros ->. reflexivity.
Qed.

(* ---- what acceptance by the monitor means, in terms of counts and order ---- *)

Definition est_fin_of (m : mon) (est fin : nat) : Prop :=
  match m with
  | MStart => est = 0 /\ fin = 0
  | MEst | MFinishedSent | MClosedEst => est = 1 /\ fin = 0
  | MEnd => est = fin /\ est <= 1
  | MBad => True
  end.

Lemma count_ev_app e a b : count_ev e (a ++ b) = count_ev e a + count_ev e b.
Proof. unfold count_ev. rewrite filter_app, app_length. reflexivity. Qed.

Lemma mon_counts es : est_fin_of (mon_run es) (count_ev EvEst es) (count_ev EvFin es).
Proof.
  induction es as [|e es IH] using rev_ind; [cbn; auto|].
  rewrite mon_run_app, !count_ev_app. cbn [fold_left].
  destruct (mon_run es) eqn:M; destruct e; cbn in *; try tauto; lia.
Qed.

(* an accepted trace calls Established at most once, Finished at most once and only
   if Established was called; a complete accepted trace calls both or neither *)
Theorem accepted_counts es :
  mon_ok (mon_run es) = true ->
  count_ev EvEst es <= 1 /\ count_ev EvFin es <= count_ev EvEst es /\
  (mon_final (mon_run es) = true -> count_ev EvFin es = count_ev EvEst es).
Proof.
  intros Hok. pose proof (mon_counts es) as H.
  destruct (mon_run es); cbn in *; try discriminate; lia.
Qed.

(* no handler runs before Established or after the connection is closed / Finished *)
Theorem accepted_order a b :
  mon_ok (mon_run (a ++ EvRun :: b)) = true ->
  count_ev EvEst a = 1 /\ count_ev EvClosed a = 0 /\ count_ev EvFin a = 0.
Proof.
  intros Hok.
  assert (Hm : mon_run a = MEst).
  { rewrite mon_run_app in Hok. cbn [fold_left] in Hok.
    assert (Hbad : forall l, fold_left mon_step l MBad = MBad) by (induction l; cbn; auto).
    destruct (mon_run a); cbn in Hok; rewrite ?Hbad in Hok; try discriminate. reflexivity. }
  clear Hok. revert Hm. induction a as [|e a IH] using rev_ind; [discriminate|].
  rewrite mon_run_app, !count_ev_app. cbn [fold_left]. intros Hm.
  pose proof (mon_counts a) as Hc.
  destruct (mon_run a) eqn:M; destruct e; cbn in Hm; try discriminate; cbn in *.
  - (* MStart, EvEst *)
    assert (count_ev EvClosed a = 0 /\ count_ev EvFin a = 0).
    { clear IH Hm. destruct Hc as [_ Hf]. split; [|exact Hf].
      revert M. induction a as [|x a IHa] using rev_ind; [reflexivity|].
      rewrite mon_run_app, count_ev_app. cbn [fold_left]. intros M.
      destruct (mon_run a) eqn:M'; destruct x; cbn in M; try discriminate. }
    lia.
  - (* MEst, EvRun *) specialize (IH eq_refl). lia.
Qed.
