(* Model I — the context/timeout decision logic of the blocking operations, in
   virtual time (milliseconds, Z).

   A blocking operation waits for an event of its environment (the peer reads,
   a byte arrives, a connection is accepted, a response or session envelope is
   queued ...) that happens at some time or never, under a context that ends at
   some time (deadline: known in advance; cancellation: not) or never.

   * polled: the TCP transport's ctxConn.Read / Write loops: check the context, arm the
     socket deadline min(now + poll, context deadline), block until the event or that
     deadline, on a timeout go round again;
   * prompt: a select on the context (in-process transport, listeners' Accept, waiting for
     a command response or a session envelope), the WebSocket transport's helper goroutine +
     forced deadline, the TLS upgrade with HandshakeContext;
   * the variants of the tree as found that ignore the context or its cancellation.
   Definitions only; proofs in TimingFacts.v. *)
From Coq Require Import ZArith List Bool.
Import ListNotations.
Open Scope Z_scope.

Inductive ctxend := CNever | CDeadline (t : Z) | CCancel (t : Z).
Inductive tres := TOk | TCtxErr.

Definition ctx_time (c : ctxend) : option Z := match c with CNever => None | CDeadline t | CCancel t => Some t end.
Definition ended (c : ctxend) (now : Z) : bool :=
  match ctx_time c with Some t => Z.leb t now | None => false end.

(* [ev]: the time at which the awaited event happens (it is then observable from that time on) *)
Definition happened (ev : option Z) (now : Z) : bool := match ev with Some e => Z.leb e now | None => false end.

(* ---- the polling loop (tcp_transport.go ctxConn.Read/Write) ---- *)
Fixpoint poll_loop (fuel : nat) (poll : Z) (c : ctxend) (ev : option Z) (now : Z) : option (Z * tres) :=
  match fuel with
  | O => None
  | S f =>
      if ended c now then Some (now, TCtxErr)
      else
        let arm := match c with CDeadline t => Z.min (now + poll) t | _ => now + poll end in
        match ev with
        | Some e => if Z.leb e arm then Some (Z.max now e, TOk) else poll_loop f poll c ev arm
        | None => poll_loop f poll c ev arm
        end
  end.

(* ---- a write on a TCP connection that was upgraded to TLS (tcp_transport.go ctxConn.Write over crypto/tls) ----
   crypto/tls makes a write that timed out permanent (its error is no longer "temporary"), so the loop does not go
   round: the write ends with that error at the armed deadline - the context's deadline, or the end of the first
   poll interval - unless the peer took the bytes before. *)
Inductive wres := WOk | WCtx | WTimeout.
Definition tls_write (poll : Z) (c : ctxend) (ev : option Z) (now : Z) : Z * wres :=
  if ended c now then (now, WCtx)
  else
    let arm := match c with CDeadline t => Z.min (now + poll) t | _ => now + poll end in
    match ev with
    | Some e => if Z.leb e arm then (Z.max now e, WOk) else (arm, WTimeout)
    | None => (arm, WTimeout)
    end.

(* ---- a select on the context and the event ---- *)
Definition prompt (c : ctxend) (ev : option Z) (now : Z) : option (Z * tres) :=
  if ended c now then Some (now, TCtxErr)
  else match ev, ctx_time c with
       | Some e, Some t => if Z.leb e t then Some (Z.max now e, TOk) else Some (t, TCtxErr)
       | Some e, None => Some (Z.max now e, TOk)
       | None, Some t => Some (t, TCtxErr)
       | None, None => None                      (* waits for ever, rightly *)
       end.

(* ---- as found: the in-process Send ignored its context ---- *)
Definition ignores_ctx (ev : option Z) (now : Z) : option (Z * tres) :=
  match ev with Some e => Some (Z.max now e, TOk) | None => None end.

(* ---- as found: the TLS upgrade honoured a deadline but not a cancellation (fixed fallback) ---- *)
Definition tls_as_found (fallback : Z) (c : ctxend) (ev : option Z) (now : Z) : option (Z * tres) :=
  let limit := match c with CDeadline t => t | _ => now + fallback end in
  match ev with
  | Some e => if Z.leb e limit then Some (Z.max now e, TOk) else Some (limit, TCtxErr)
  | None => Some (limit, TCtxErr)
  end.

(* ---- the operations ---- *)
Inductive tkind := KTcp | KWs | KInproc.
Inductive opkind :=
| OpSend | OpReceive | OpAccept          (* transport level *)
| OpChannelSend | OpProcessCommand       (* channel level: gate, then Send / Send then wait for the response *)
| OpEstablish | OpTlsUpgrade
| OpClientFinish                         (* send finishing, wait for the answer *)
| OpServerFinish.                        (* send finished, then stop the own receiver, then close *)

Definition tcp_poll : Z := 5000.

(* the primitive the operation is blocked in when the peer is silent / not reading *)
Definition blocked_in (fixed : bool) (k : tkind) (o : opkind) (c : ctxend) (ev : option Z) (now : Z) (fuel : nat)
  : option (Z * tres) :=
  match k, o with
  | KTcp, (OpSend | OpReceive | OpChannelSend | OpEstablish | OpServerFinish) => poll_loop fuel tcp_poll c ev now
  | KTcp, OpTlsUpgrade => if fixed then prompt c ev now else tls_as_found 30000 c ev now
  | KInproc, (OpSend | OpChannelSend | OpServerFinish) => if fixed then prompt c ev now else ignores_ctx ev now
  | _, _ => prompt c ev now
  end.

(* stopping the own receiver after the terminal envelope (server FinishSession/FailSession, channel.Close):
   the receiver is cancelled and the caller waits for it; a TCP receiver notices at the end of its current
   poll.  [phase]: the time (from the start of the operation) at which the receiver's polls end: phase,
   phase + poll, phase + 2 poll, ... *)
Definition stop_receiver (k : tkind) (phase : Z) (t : Z) : Z :=
  match k with
  | KTcp => if Z.leb t phase then phase else phase + tcp_poll * ((t - phase + tcp_poll - 1) / tcp_poll)
  | _ => t
  end.

Definition run_op (fixed : bool) (k : tkind) (o : opkind) (c : ctxend) (ev : option Z) (rcv_phase : Z) (now : Z) (fuel : nat)
  : option (Z * tres) :=
  match blocked_in fixed k o c ev now fuel with
  | Some (t, r) =>
      match o with
      | OpServerFinish => Some (stop_receiver k rcv_phase t, r)   (* the state is stored and the receiver stopped whatever the send did *)
      | _ => Some (t, r)
      end
  | None => None
  end.
