(* Proofs about the start-up race (Life/Startup.v). *)
From Coq Require Import List Arith Bool Lia.
Import ListNotations.
From Lime Require Import Life.Startup.

Lemma do_close_not_open l : l_open (do_close l) = false.
Proof. destruct l as [[] st cl]; unfold do_close, l_open; cbn; destruct st; cbn; auto. Qed.

Lemma none_open_close_all l : forallb (fun x => negb (l_open x)) (close_all l) = true.
Proof. induction l as [|x l IH]; cbn [close_all map forallb]; auto. rewrite do_close_not_open. cbn. exact IH. Qed.

Lemma forallb_upd_nth (P : lst -> bool) l i f :
  forallb P l = true -> (forall x, P x = true -> P (f x) = true) -> forallb P (upd_nth l i f) = true.
Proof.
  revert i; induction l as [|x l IH]; intros [|i] H Hf; cbn in *; auto;
    apply andb_true_iff in H; destruct H as [H1 H2]; apply andb_true_iff; split; auto.
Qed.

Lemma existsb_upd_nth_false (P : lst -> bool) l i f :
  existsb P l = false -> (forall x, P x = false -> P (f x) = false) -> existsb P (upd_nth l i f) = false.
Proof.
  revert i; induction l as [|x l IH]; intros [|i] H Hf; cbn in *; auto;
    apply orb_false_iff in H; destruct H as [H1 H2]; apply orb_false_iff; split; auto.
Qed.

(* nothing is closed, and Close has no step pending, before the context is cancelled *)
Definition pre (s : ust) : Prop :=
  u_cancelled s = false -> existsb l_closed (ls s) = false /\ u_close s = None /\ u_main s <> UReturned.
(* once ListenAndServe has returned no listener is open (repaired code) *)
Definition post (s : ust) : Prop := u_main s = UReturned -> none_open s = true.

Lemma nth_error_closed l i x : existsb l_closed l = false -> nth_error l i = Some x -> l_closed x = false.
Proof.
  revert i; induction l as [|y l IH]; intros [|i] H Hn; cbn in *; try discriminate;
    apply orb_false_iff in H; destruct H as [H1 H2].
  - inversion Hn; subst. exact H1.
  - eapply IH; eauto.
Qed.

Lemma inv_step s l : pre s -> post s -> pre (ustep true s l) /\ post (ustep true s l).
Proof.
  intros Hpre Hpost. unfold pre, post in *. destruct s as [L canc mn cl called]. cbn in *.
  destruct l; cbn [ustep ls u_cancelled u_main u_close u_close_called].
  - (* UMain *)
    destruct mn as [i| |]; [|split; auto|split; auto].
    destruct (nth_error L i) as [li|] eqn:E.
    + destruct (do_listen li) as [li' ok] eqn:D. destruct ok; cbn.
      * split.
        -- intros C. destruct (Hpre C) as [H1 [H2 H3]]. split; [|split; [auto|discriminate]].
           apply existsb_upd_nth_false; auto. intros x _.
           unfold do_listen in D. destruct (l_kind li); [inversion D; reflexivity|].
           destruct (l_closed li); inversion D; reflexivity.
        -- discriminate.
      * (* Listen failed: only a closed in-process listener refuses, so the context was cancelled *)
        assert (Hc : canc = true).
        { destruct canc; auto. destruct (Hpre eq_refl) as [H1 _].
          pose proof (nth_error_closed _ _ _ H1 E) as Hx. unfold do_listen in D.
          destruct (l_kind li); [inversion D|]. rewrite Hx in D. inversion D. }
        subst. cbn. split; [discriminate|]. intros _. unfold none_open. cbn. apply none_open_close_all.
    + cbn. split; [|discriminate]. intros C. destruct (Hpre C) as [H1 [H2 H3]]. repeat split; auto. discriminate.
  - (* UCloseCall *)
    destruct called; [split; auto|]. destruct mn; cbn; split; auto; try discriminate.
  - (* UCloseStep *)
    destruct cl as [j|]; [|split; auto].
    assert (Hc : canc = true) by (destruct canc; auto; destruct (Hpre eq_refl) as [_ [H _]]; discriminate).
    subst. destruct (Nat.ltb j (length L)); cbn; (split; [discriminate|]).
    + intros M. unfold none_open in *. cbn in *. apply forallb_upd_nth; auto.
      intros x _. rewrite do_close_not_open. reflexivity.
    + exact Hpost.
  - (* UGroupDone *)
    destruct mn as [i| |].
    + split; [exact Hpre|exact Hpost].
    + destruct canc.
      * destruct cl as [j|].
        -- split; [exact Hpre|exact Hpost].
        -- cbn. split; [discriminate|]. intros _. unfold none_open. cbn. apply none_open_close_all.
      * split; [exact Hpre|exact Hpost].
    + split; [exact Hpre|exact Hpost].
Qed.

Lemma inv_run sched s : pre s -> post s -> pre (urun true s sched) /\ post (urun true s sched).
Proof.
  revert s; induction sched as [|l r IH]; intros s H1 H2; cbn; auto.
  destruct (inv_step s l H1 H2) as [A B]. apply IH; auto.
Qed.

Lemma init_not_closed kinds :
  existsb l_closed (map (fun k => {| l_kind := k; l_started := false; l_closed := false |}) kinds) = false.
Proof. induction kinds; cbn; auto. Qed.

(* Whatever the timing of Close relative to the start-up loop, once ListenAndServe has returned no
   listener is left open - and it only returns once the server was closed. *)
Theorem startup_orderly kinds sched :
  let s := urun true (uinit kinds) sched in
  u_main s = UReturned -> none_open s = true /\ u_cancelled s = true.
Proof.
  intros s M.
  assert (H : pre (uinit kinds) /\ post (uinit kinds)).
  { split.
    - intros _. cbn. split; [apply init_not_closed|split; [reflexivity|discriminate]].
    - unfold post. cbn. discriminate. }
  destruct H as [H1 H2]. destruct (inv_run sched _ H1 H2) as [A B]. fold s in A, B.
  split; [apply B, M|]. destruct (u_cancelled s) eqn:C; auto. destruct (A C) as [_ [_ N]]. contradiction.
Qed.

(* the tree as found: Close lands between two Listen calls; the socket listener that is started
   afterwards stays open after both calls have returned *)
Theorem as_found_leaves_a_listener_open :
  exists sched, let s := urun false (uinit [LInproc; LSocket]) sched in settled s = true /\ none_open s = false.
Proof.
  exists [UMain; UCloseCall; UCloseStep; UCloseStep; UCloseStep; UMain; UMain; UGroupDone]. vm_compute. split; reflexivity.
Qed.
