(* Proofs about Model I (Life/Timing.v). *)
From Coq Require Import ZArith List Bool Lia.
Import ListNotations.
From Lime Require Import Life.Timing.
Open Scope Z_scope.

Lemma ended_spec c now : ended c now = true <-> exists t, ctx_time c = Some t /\ t <= now.
Proof.
  unfold ended. destruct (ctx_time c) as [t|].
  - rewrite Z.leb_le. split; [intros H; exists t; auto | intros [t' [E H]]; inversion E; subst; auto].
  - split; [discriminate | intros [t' [E _]]; discriminate].
Qed.

(* ---- the polling loop: a context error is returned exactly at a deadline, and less than one
   poll interval after a cancellation; never without the context having ended ---- *)
Lemma poll_ctxerr fuel poll c ev now r :
  0 < poll -> poll_loop fuel poll c ev now = Some (r, TCtxErr) ->
  exists t, ctx_time c = Some t /\ t <= r /\ now <= r /\
    match c with
    | CDeadline _ => r = Z.max now t
    | CCancel _ => (t <= now -> r = now) /\ (now < t -> r < t + poll)
    | CNever => False
    end.
Proof.
  intros Hp. revert now. induction fuel as [|f IH]; intros now H; [discriminate|].
  cbn [poll_loop] in H.
  destruct (ended c now) eqn:E.
  - inversion H; subst. apply ended_spec in E. destruct E as [t [Ht Hle]].
    exists t. repeat split; auto; try lia.
    destruct c; cbn in Ht; inversion Ht; subst; lia.
  - assert (Hne : forall t, ctx_time c = Some t -> now < t).
    { intros t Ht. unfold ended in E. rewrite Ht in E. apply Z.leb_gt in E. exact E. }
    set (arm := match c with CDeadline t => Z.min (now + poll) t | _ => now + poll end) in *.
    assert (Harm : now < arm).
    { unfold arm. destruct c; try lia. specialize (Hne t eq_refl). lia. }
    assert (Hrec : poll_loop f poll c ev arm = Some (r, TCtxErr)).
    { destruct ev as [e|]; [|exact H]. destruct (Z.leb e arm); [inversion H|exact H]. }
    destruct (IH _ Hrec) as [t [Ht [H1 [H2 H3]]]].
    exists t. repeat split; auto; try lia.
    specialize (Hne t Ht).
    destruct c; cbn in Ht; inversion Ht; subst; unfold arm in *; try contradiction; lia.
Qed.

(* a successful return is the event, at the time it happens (or at once if it already had) *)
Lemma poll_ok fuel poll c ev now r :
  0 < poll -> poll_loop fuel poll c ev now = Some (r, TOk) -> exists e, ev = Some e /\ r = Z.max now e.
Proof.
  intros Hp. revert now. induction fuel as [|f IH]; intros now H; [discriminate|].
  cbn [poll_loop] in H.
  destruct (ended c now) eqn:E; [discriminate|].
  set (arm := match c with CDeadline t => Z.min (now + poll) t | _ => now + poll end) in *.
  assert (Harm : now < arm).
  { unfold arm. destruct c; try lia. unfold ended in E. cbn in E. apply Z.leb_gt in E. lia. }
  destruct ev as [e|].
  - destruct (Z.leb e arm) eqn:L.
    + inversion H; subst. exists e. auto.
    + apply Z.leb_gt in L. destruct (IH _ H) as [e' [He Hr]]. inversion He; subst e'. exists e. split; [reflexivity|]. lia.
  - destruct (IH _ H) as [e' [He _]]. discriminate.
Qed.

(* with enough fuel the loop always returns when the context ends at some time or the event happens *)
Lemma poll_returns fuel poll c ev now h :
  0 < poll -> (ctx_time c = Some h \/ ev = Some h) ->
  Z.max 0 (h - now) + 2 * poll <= Z.of_nat fuel * poll -> poll_loop fuel poll c ev now <> None.
Proof.
  intros Hp Hh. revert now. induction fuel as [|f IH]; intros now Hf.
  - lia.
  - cbn [poll_loop]. destruct (ended c now) eqn:E; [discriminate|].
    set (arm := match c with CDeadline t => Z.min (now + poll) t | _ => now + poll end) in *.
    assert (Hf1 : (1 <= f)%nat) by (rewrite Nat2Z.inj_succ in Hf; destruct f; [lia|lia]).
    assert (Hnext : h <= arm \/ ended c arm = true \/ Z.max 0 (h - arm) + 2 * poll <= Z.of_nat f * poll).
    { destruct (Z.le_gt_cases h arm) as [Hle|Hgt]; [left; exact Hle|right].
      unfold arm in *. rewrite Nat2Z.inj_succ in Hf. unfold ended in E.
      destruct c as [|t|t]; cbn in E; try apply Z.leb_gt in E; try (right; lia).
      destruct (Z.le_gt_cases t (now + poll)); [left|right; lia].
      unfold ended; cbn. apply Z.leb_le. lia. }
    assert (Hend : ended c arm = true -> poll_loop f poll c ev arm <> None).
    { intros He. destruct f as [|f']; [lia|]. cbn [poll_loop]. rewrite He. discriminate. }
    destruct ev as [e|].
    + destruct (Z.leb e arm) eqn:L; [discriminate|]. apply Z.leb_gt in L.
      destruct Hnext as [Hle|[He|Hfu]].
      * destruct Hh as [Hh|Hh]; [|inversion Hh; subst; lia].
        apply Hend. apply ended_spec. exists h. auto.
      * apply Hend, He.
      * apply IH. exact Hfu.
    + destruct Hnext as [Hle|[He|Hfu]].
      * destruct Hh as [Hh|Hh]; [|discriminate].
        apply Hend. apply ended_spec. exists h. auto.
      * apply Hend, He.
      * apply IH. exact Hfu.
Qed.

(* ---- a select: the context error arrives exactly when the context ends ---- *)
Lemma prompt_ctxerr c ev now r :
  prompt c ev now = Some (r, TCtxErr) -> exists t, ctx_time c = Some t /\ r = Z.max now t.
Proof.
  unfold prompt. destruct (ended c now) eqn:E.
  - intros H; inversion H; subst. apply ended_spec in E. destruct E as [t [Ht Hle]]. exists t. split; auto. lia.
  - unfold ended in E. destruct (ctx_time c) as [t|] eqn:T.
    + apply Z.leb_gt in E. destruct ev as [e|].
      * destruct (Z.leb e t); intros H; [discriminate|]. injection H as Hr. exists t. split; [reflexivity|lia].
      * intros H. injection H as Hr. exists t. split; [reflexivity|lia].
    + destruct ev; discriminate.
Qed.

Lemma prompt_returns c ev now : (ctx_time c <> None \/ ev <> None) -> prompt c ev now <> None.
Proof.
  unfold prompt. destruct (ended c now); [discriminate|].
  destruct ev as [e|], (ctx_time c) as [t|]; try discriminate; try (destruct (Z.leb e t); discriminate).
  intros [H|H]; congruence.
Qed.

(* a write over TLS that does not succeed ends with an error no later than a deadline and no later than one poll
   interval after it began - whatever the context does; it succeeds only if the peer took the bytes *)
Theorem tls_write_bound poll c ev now r res :
  0 < poll -> tls_write poll c ev now = (r, res) ->
  now <= r <= now + poll /\
  (forall t, c = CDeadline t -> r <= Z.max now t) /\
  (res = WOk -> exists e, ev = Some e /\ r = Z.max now e) /\
  (res = WCtx -> exists t, ctx_time c = Some t /\ t <= now /\ r = now).
Proof.
  intros Hp. unfold tls_write. destruct (ended c now) eqn:E.
  - intros H. inversion H; subst. apply ended_spec in E. destruct E as [t [Ht Hl]].
    split; [lia|]. split; [intros t' ->; cbn in Ht; inversion Ht; lia|]. split; [discriminate|].
    intros _. exists t. auto.
  - assert (Hne : forall t, ctx_time c = Some t -> now < t).
    { intros t Ht. destruct (Z.lt_ge_cases now t) as [Hlt|Hge]; auto. exfalso.
      assert (Hen : ended c now = true) by (apply ended_spec; exists t; split; auto; lia). congruence. }
    set (arm := match c with CDeadline t => Z.min (now + poll) t | _ => now + poll end).
    assert (Ha : now < arm <= now + poll /\ forall t, c = CDeadline t -> arm <= t).
    { unfold arm. destruct c as [|t|t]; cbn; try (split; [lia|intros ? ?; discriminate]).
      specialize (Hne t eq_refl). split; [lia|]. intros t' Heq. inversion Heq; subst. lia. }
    destruct Ha as [Ha1 Ha2].
    destruct ev as [e|].
    + destruct (Z.leb_spec e arm) as [Hle|Hgt]; intros H; inversion H; subst.
      * split; [lia|]. split; [intros t ->; specialize (Ha2 t eq_refl); lia|]. split; [intros _; exists e; auto|discriminate].
      * split; [lia|]. split; [intros t ->; specialize (Ha2 t eq_refl); lia|]. split; discriminate.
    + intros H; inversion H; subst.
      split; [lia|]. split; [intros t ->; specialize (Ha2 t eq_refl); lia|]. split; discriminate.
Qed.

(* ---- every operation of the repaired code, every transport ---- *)
Definition poll_of (k : tkind) : Z := match k with KTcp => tcp_poll | _ => 0 end.

Theorem op_ctxerr_bound k o c ev phase now fuel r :
  now <= phase <= now + poll_of k ->
  run_op true k o c ev phase now fuel = Some (r, TCtxErr) ->
  exists t, ctx_time c = Some t /\ Z.max now t <= r /\
    (* promptly at a deadline, within the poll interval after a cancellation ... *)
    (match o with
     | OpServerFinish => True
     | _ => match c with
            | CDeadline _ => r = Z.max now t
            | CCancel _ => r <= Z.max now t + poll_of k
            | CNever => False
            end
     end) /\
    (* ... and in every case, finishing included (it also waits for its own receiver's current poll) *)
    r <= Z.max now t + 2 * poll_of k.
Proof.
  intros Hph. unfold run_op.
  destruct (blocked_in true k o c ev now fuel) as [[t0 r0]|] eqn:B; [|discriminate].
  assert (Hb : r0 = TCtxErr -> exists t, ctx_time c = Some t /\ Z.max now t <= t0 /\
            match c with
            | CDeadline _ => t0 = Z.max now t
            | CCancel _ => t0 <= Z.max now t + poll_of k
            | CNever => False
            end).
  { intros ->. unfold blocked_in in B.
    assert (P : forall x, prompt c ev now = Some (x, TCtxErr) ->
              exists t, ctx_time c = Some t /\ Z.max now t <= x /\
                match c with CDeadline _ => x = Z.max now t | CCancel _ => x <= Z.max now t + poll_of k | CNever => False end).
    { intros x Hx. apply prompt_ctxerr in Hx. destruct Hx as [t [Ht Hr]]. exists t. split; [exact Ht|]. split; [lia|].
      destruct c; cbn in Ht; inversion Ht; subst; destruct k; cbn [poll_of]; unfold tcp_poll; lia. }
    assert (L : forall x, k = KTcp -> poll_loop fuel tcp_poll c ev now = Some (x, TCtxErr) ->
              exists t, ctx_time c = Some t /\ Z.max now t <= x /\
                match c with CDeadline _ => x = Z.max now t | CCancel _ => x <= Z.max now t + poll_of k | CNever => False end).
    { intros x -> Hx. apply poll_ctxerr in Hx; [|unfold tcp_poll; lia]. destruct Hx as [t [Ht [H1 [H2 H3]]]].
      exists t. split; [exact Ht|]. split; [lia|].
      destruct c; cbn in Ht; inversion Ht; subst; cbn [poll_of]; try contradiction; try lia.
      destruct H3 as [H3a H3b]. unfold tcp_poll in *. destruct (Z.le_gt_cases t now); [rewrite (H3a H); lia|specialize (H3b H); lia]. }
    destruct k, o; try (apply P; exact B); try (apply L; [reflexivity|exact B]). }
  destruct o; intros H; inversion H; subst;
    try (destruct (Hb eq_refl) as [t [Ht [H1 H2]]]; exists t; repeat split; auto; try lia;
         destruct c; try contradiction; destruct k; cbn [poll_of] in *; unfold tcp_poll in *; lia).
  (* OpServerFinish *)
  destruct (Hb eq_refl) as [t [Ht [H1 H2]]]. exists t.
  assert (Hs : t0 <= stop_receiver k phase t0 <= t0 + poll_of k).
  { unfold stop_receiver. destruct k; cbn [poll_of] in *; unfold tcp_poll in *; try lia.
    destruct (Z.leb_spec t0 phase); [lia|].
    pose proof (Z.div_mod (t0 - phase + 5000 - 1) 5000 ltac:(lia)) as D.
    pose proof (Z.mod_pos_bound (t0 - phase + 5000 - 1) 5000 ltac:(lia)) as M. lia. }
  split; [exact Ht|]. split; [lia|]. split; [exact I|].
  destruct k; cbn [poll_of] in *; unfold tcp_poll in *; destruct c; try contradiction; lia.
Qed.

(* no operation blocks for ever once its context has an end *)
Theorem op_returns k o c ev phase now fuel t :
  ctx_time c = Some t -> Z.max 0 (t - now) + 2 * tcp_poll <= Z.of_nat fuel * tcp_poll ->
  run_op true k o c ev phase now fuel <> None.
Proof.
  intros Ht Hf. unfold run_op.
  assert (blocked_in true k o c ev now fuel <> None).
  { unfold blocked_in. destruct k, o;
      try (apply prompt_returns; left; congruence);
      try (apply (poll_returns fuel tcp_poll c ev now t); [unfold tcp_poll; lia | left; exact Ht | exact Hf]). }
  destruct (blocked_in true k o c ev now fuel) as [[t0 r0]|]; [|congruence].
  destruct o; discriminate.
Qed.

(* ---- the tree as found ---- *)
Theorem as_found_inproc_send_ignores_deadline :
  exists c now fuel, ctx_time c = Some 200 /\ run_op false KInproc OpSend c None 0 now fuel = None.
Proof. exists (CDeadline 200), 0, 100%nat. split; reflexivity. Qed.

Theorem as_found_tls_upgrade_ignores_cancel :
  exists r, run_op false KTcp OpTlsUpgrade (CCancel 200) None 0 0 100 = Some (r, TCtxErr) /\ 200 + tcp_poll < r.
Proof. exists 30000. split; [reflexivity|unfold tcp_poll; lia]. Qed.

Example fixed_same_inputs :
  run_op true KInproc OpSend (CDeadline 200) None 0 0 100 = Some (200, TCtxErr) /\
  run_op true KTcp OpTlsUpgrade (CCancel 200) None 0 0 100 = Some (200, TCtxErr) /\
  run_op true KTcp OpSend (CCancel 200) None 0 0 100 = Some (5000, TCtxErr) /\
  run_op true KTcp OpSend (CDeadline 7300) None 0 0 100 = Some (7300, TCtxErr) /\
  run_op true KTcp OpReceive (CCancel 200) (Some 1200) 0 0 100 = Some (1200, TOk).
Proof. vm_compute. repeat split. Qed.
