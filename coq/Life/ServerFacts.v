(* Proofs about Model G (Life/Server.v) for the repaired code, over every
   schedule: no panic, conservation of accepted transports, termination,
   no deadlock after Close, ErrServerClosed; and the refutations for the tree
   as found. *)
From Coq Require Import List Arith Bool Lia.
Import ListNotations.
From Lime Require Import Life.Server.
Arguments sum : simpl never.

Lemma length_set_nth {A} (l : list A) i x : length (set_nth l i x) = length l.
Proof. revert i; induction l as [|y l IH]; intros [|i]; cbn; auto. Qed.

Lemma nth_set_nth_eq {A} (l : list A) i x d : i < length l -> nth i (set_nth l i x) d = x.
Proof. revert i; induction l as [|y l IH]; intros [|i] H; cbn in *; try lia; auto. apply IH. lia. Qed.

Lemma nth_set_nth_neq {A} (l : list A) i j x d : i <> j -> nth j (set_nth l i x) d = nth j l d.
Proof. revert i j; induction l as [|y l IH]; intros [|i] [|j] H; cbn; auto; try congruence; try (apply IH; congruence). Qed.

Lemma nth_error_set_nth_eq {A} (l : list A) i x y : nth_error l i = Some y -> nth_error (set_nth l i x) i = Some x.
Proof. revert i; induction l as [|z l IH]; intros [|i]; cbn; intros H; try discriminate; auto. Qed.

Lemma nth_error_set_nth_neq {A} (l : list A) i j x : i <> j -> nth_error (set_nth l i x) j = nth_error l j.
Proof.
  revert i j; induction l as [|z l IH]; intros [|i] [|j] H; cbn; auto; try congruence;
    try (apply IH; congruence).
Qed.

(* replacing the i-th element changes a sum of weights by the difference of the weights *)
Lemma sum_map_set_nth {A} (w : A -> nat) (l : list A) i x y :
  nth_error l i = Some y -> sum (map w (set_nth l i x)) + w y = sum (map w l) + w x.
Proof.
  unfold sum. revert i; induction l as [|z l IH]; intros [|i] H; cbn in *; try discriminate.
  - inversion H; subst. lia.
  - specialize (IH _ H). lia.
Qed.

Lemma sum_set_nth (l : list nat) i x : i < length l -> sum (set_nth l i x) + nth i l 0 = sum l + x.
Proof.
  unfold sum. revert i; induction l as [|z l IH]; intros [|i] H; cbn in *; try lia.
  specialize (IH i ltac:(lia)). lia.
Qed.

Lemma apc_is_spec p q : apc_is p q = true -> p = Some q.
Proof. destruct p as [[]|], q; cbn; congruence. Qed.

Lemma held_set_nth (l : list apc) i x y :
  nth_error l i = Some y ->
  length (filter (fun p => match p with ASend => true | _ => false end) (set_nth l i x)) +
    (match y with ASend => 1 | _ => 0 end) =
  length (filter (fun p => match p with ASend => true | _ => false end) l) +
    (match x with ASend => 1 | _ => 0 end).
Proof.
  revert i; induction l as [|z l IH]; intros [|i] H; cbn in *; try discriminate.
  - inversion H; subst. destruct x, y; cbn; lia.
  - specialize (IH _ H). destruct z; cbn; lia.
Qed.

Lemma held_init (l : list nat) :
  length (filter (fun p => match p with ASend => true | _ => false end) (map (fun _ : nat => AAccept) l)) = 0.
Proof. induction l; cbn; auto. Qed.

Lemma held_all_done (l : list apc) :
  forallb (fun p => match p with ADone => true | _ => false end) l = true ->
  length (filter (fun p => match p with ASend => true | _ => false end) l) = 0.
Proof. induction l as [|p l IH]; cbn; [reflexivity|]. destruct p; cbn; try discriminate. exact IH. Qed.

Section Fixed.
  Variable backlog : nat.
  Notation step := (gstep true backlog).
  Notation run := (grun true backlog).

  (* ---- no panic: the queue is never closed ---- *)
  Definition safe (s : gst) : Prop := qclosed s = false /\ panicked s = false.

  Lemma safe_step s l : safe s -> safe (step s l).
  Proof.
    intros [Hq Hp]. unfold safe, gstep. rewrite Hp.
    destruct l; cbn [upd upd_close];
      repeat match goal with
      | |- context [if ?c then _ else _] => destruct c eqn:?
      | |- context [match ?c with _ => _ end] => destruct c eqn:?
      end; cbn; auto; try congruence.
  Qed.

  Lemma safe_run ls s : safe s -> safe (run s ls).
  Proof. revert s; induction ls as [|l ls IH]; intros s H; cbn; auto. apply IH, safe_step, H. Qed.

  Theorem no_panic clients ls : panicked (run (ginit clients) ls) = false /\ qclosed (run (ginit clients) ls) = false.
  Proof. destruct (safe_run ls (ginit clients)) as [H1 H2]; [split; reflexivity|]. auto. Qed.

  (* ---- conservation: every accepted transport is served or released; none is dropped ---- *)
  Definition total (s : gst) : nat := sum (pending s) + held s + queue s + served s + released s + leaked s.
  Definition wf (s : gst) : Prop := length (pending s) = length (acc s) /\ length (lclosed s) = length (acc s).

  Lemma wf_step s l : wf s -> wf (step s l).
  Proof.
    intros [H1 H2]. unfold wf, gstep.
    destruct (panicked s); [auto|].
    destruct l; cbn [upd upd_close];
      repeat match goal with
      | |- context [if ?c then _ else _] => destruct c eqn:?
      | |- context [match ?c with _ => _ end] => destruct c eqn:?
      end; cbn; rewrite ?length_set_nth; auto.
  Qed.

  Lemma conserve_step s l : wf s -> total (step s l) = total s /\ leaked (step s l) = leaked s.
  Proof.
    intros [H1 H2]. unfold gstep.
    destruct (panicked s); [auto|].
    destruct l; cbn [upd upd_close]; try (split; reflexivity).
    - (* AcceptGet *)
      destruct (apc_is (nth_error (acc s) i) AAccept) eqn:E; cbn [andb]; [|auto].
      destruct (Nat.ltb_spec 0 (nth i (pending s) 0)); cbn [andb]; [|auto].
      destruct (negb (nth i (lclosed s) false)); [|auto].
      apply apc_is_spec in E. split; [|reflexivity].
      unfold total, held; cbn.
      assert (Hi : i < length (pending s)).
      { rewrite H1. apply nth_error_Some. congruence. }
      pose proof (sum_set_nth (pending s) i (nth i (pending s) 0 - 1) Hi).
      pose proof (held_set_nth (acc s) i ASend AAccept E). cbn in *. lia.
    - (* AcceptCtx *)
      destruct (apc_is (nth_error (acc s) i) AAccept) eqn:E; cbn [andb]; [|auto].
      destruct (grp_cancelled s); [|auto]. apply apc_is_spec in E. split; [|reflexivity].
      unfold total, held; cbn. pose proof (held_set_nth (acc s) i ADone AAccept E). cbn in *. lia.
    - (* AcceptClosed *)
      destruct (apc_is (nth_error (acc s) i) AAccept) eqn:E; cbn [andb]; [|auto].
      destruct (nth i (lclosed s) false); [|auto]. apply apc_is_spec in E. split; [|reflexivity].
      unfold total, held; cbn. pose proof (held_set_nth (acc s) i ADone AAccept E). cbn in *. lia.
    - (* SendQ *)
      destruct (apc_is (nth_error (acc s) i) ASend) eqn:E; [|auto].
      destruct (qclosed s); [split; reflexivity|].
      destruct (Nat.leb (queue s) backlog); [|auto]. apply apc_is_spec in E. split; [|reflexivity].
      unfold total, held; cbn. pose proof (held_set_nth (acc s) i AAccept ASend E). cbn in *. lia.
    - (* SendCtx *)
      destruct (apc_is (nth_error (acc s) i) ASend) eqn:E; cbn [andb]; [|auto].
      destruct (grp_cancelled s); [|auto]. apply apc_is_spec in E. split; [|reflexivity].
      unfold total, held; cbn. pose proof (held_set_nth (acc s) i ADone ASend E). cbn in *. lia.
    - (* ConsTake *)
      destruct (cons s); [|auto]. destruct (queue s) eqn:Q; [auto|]. split; [|reflexivity].
      unfold total, held; cbn. rewrite Q. lia.
    - (* ConsCtx *)
      destruct (cons s); [|auto]. destruct (grp_cancelled s); auto.
    - (* ConsNil *)
      destruct (cons s); [|auto]. destruct (queue s) eqn:Q; [|auto]. destruct (qclosed s); [|auto].
      split; [|reflexivity]. unfold total, held; cbn. rewrite Q. lia.
    - (* CloseCall *) destruct (close_called s); auto.
    - (* CloseStep *)
      destruct (close_todo s); [auto|].
      repeat match goal with |- context [if ?c then _ else _] => destruct c end; split; reflexivity.
    - (* MainReturn *)
      destruct (main s); [|auto]. destruct (all_done s); [|auto]. split; [|reflexivity].
      unfold total, held; cbn. lia.
  Qed.

  Lemma conserve_run ls s : wf s -> total (run s ls) = total s /\ leaked (run s ls) = leaked s /\ wf (run s ls).
  Proof.
    revert s; induction ls as [|l ls IH]; intros s H; cbn [grun fold_left]; [auto|].
    destruct (conserve_step s l H) as [H1 H2]. pose proof (wf_step s l H) as H3.
    destruct (IH _ H3) as [H4 [H5 H6]]. unfold grun in *. repeat split; try congruence; apply H6.
  Qed.

  Lemma wf_init clients : wf (ginit clients).
  Proof. unfold wf; cbn. rewrite !map_length. auto. Qed.

  Theorem conservation clients ls :
    let s := run (ginit clients) ls in
    sum (pending s) + held s + queue s + served s + released s = sum clients /\ leaked s = 0.
  Proof.
    intros s. destruct (conserve_run ls (ginit clients) (wf_init clients)) as [H1 [H2 _]].
    fold s in H1, H2. cbn in H2. split; [|exact H2].
    unfold total in H1. rewrite H2 in H1. rewrite Nat.add_0_r in H1. rewrite H1.
    unfold held; cbn.
    rewrite held_init. lia.
  Qed.


  (* ---- termination: every effective step lowers the measure ---- *)
  Lemma measure_step s l : wf s -> safe s -> step s l = s \/ measure (step s l) < measure s.
  Proof.
    intros [H1 H2] [Hq Hp]. unfold gstep. rewrite Hp.
    destruct l; cbn [upd upd_close].
    - destruct (apc_is (nth_error (acc s) i) AAccept) eqn:E; cbn [andb]; [|auto].
      destruct (Nat.ltb_spec 0 (nth i (pending s) 0)); cbn [andb]; [|auto].
      destruct (negb (nth i (lclosed s) false)); [|auto].
      apply apc_is_spec in E. right. unfold measure; cbn.
      assert (Hi : i < length (pending s)) by (rewrite H1; apply nth_error_Some; congruence).
      pose proof (sum_set_nth (pending s) i (nth i (pending s) 0 - 1) Hi).
      pose proof (sum_map_set_nth aweight (acc s) i ASend AAccept E). cbn in *. lia.
    - destruct (apc_is (nth_error (acc s) i) AAccept) eqn:E; cbn [andb]; [|auto].
      destruct (grp_cancelled s); [|auto]. apply apc_is_spec in E. right. unfold measure; cbn.
      pose proof (sum_map_set_nth aweight (acc s) i ADone AAccept E). cbn in *. lia.
    - destruct (apc_is (nth_error (acc s) i) AAccept) eqn:E; cbn [andb]; [|auto].
      destruct (nth i (lclosed s) false); [|auto]. apply apc_is_spec in E. right. unfold measure; cbn.
      pose proof (sum_map_set_nth aweight (acc s) i ADone AAccept E). cbn in *. lia.
    - destruct (apc_is (nth_error (acc s) i) ASend) eqn:E; [|auto]. rewrite Hq.
      destruct (Nat.leb (queue s) backlog); [|auto]. apply apc_is_spec in E. right. unfold measure; cbn.
      pose proof (sum_map_set_nth aweight (acc s) i AAccept ASend E). cbn in *. lia.
    - destruct (apc_is (nth_error (acc s) i) ASend) eqn:E; cbn [andb]; [|auto].
      destruct (grp_cancelled s); [|auto]. apply apc_is_spec in E. right. unfold measure; cbn.
      pose proof (sum_map_set_nth aweight (acc s) i ADone ASend E). cbn in *. lia.
    - destruct (cons s) eqn:C; [|auto]. destruct (queue s) eqn:Q; [auto|]. right. unfold measure; cbn. rewrite C, Q. lia.
    - destruct (cons s) eqn:C; [|auto]. destruct (grp_cancelled s); [|auto]. right. unfold measure; cbn. rewrite C. lia.
    - destruct (cons s); [|auto]. destruct (queue s); [|auto]. rewrite Hq. auto.
    - destruct (close_called s) eqn:C; [auto|]. right. unfold measure; cbn. rewrite C. lia.
    - destruct (close_todo s) eqn:T; [auto|]. right.
      assert (Hc : close_called s = true \/ close_called s = false) by (destruct (close_called s); auto).
      repeat match goal with |- context [if ?c then _ else _] => destruct c end;
        unfold measure; cbn; rewrite ?length_set_nth, ?T; destruct (close_called s); lia.
    - destruct (main s) eqn:M; [|auto]. destruct (all_done s); [|auto]. right. unfold measure; cbn. rewrite M. lia.
  Qed.

  Theorem terminates clients ls l :
    let s := run (ginit clients) ls in
    step s l = s \/ measure (step s l) < measure s.
  Proof.
    intros s. apply measure_step.
    - apply (conserve_run ls (ginit clients) (wf_init clients)).
    - apply safe_run. split; reflexivity.
  Qed.

  (* ---- nothing ends before Close has cancelled ---- *)
  Definition quiet (s : gst) : Prop :=
    first_err s = None /\ cons s = CSelect /\ Forall (fun b => b = false) (lclosed s) /\
    Forall (fun p => p <> ADone) (acc s) /\ main s = MWait /\
    (close_todo s = 0 \/ close_todo s = 1 + length (lclosed s)).
  Definition pre_cancel (s : gst) : Prop := cancelled s = false -> quiet s.

  Lemma Forall_set_nth {A} (P : A -> Prop) l i x : Forall P l -> P x -> Forall P (set_nth l i x).
  Proof. intros H Hx. revert i; induction H; intros [|i]; cbn; auto. Qed.

  Lemma Forall_false_nth l i : Forall (fun b => b = false) l -> nth i l false = false.
  Proof. intros H. revert i; induction H; intros [|i]; cbn; auto. Qed.

  Lemma pre_cancel_step s l : safe s -> pre_cancel s -> pre_cancel (step s l).
  Proof.
    intros [Hq Hp] H. unfold pre_cancel in *. unfold gstep. rewrite Hp.
    destruct (cancelled s) eqn:C.
    - (* already cancelled: it stays so *)
      intros Hc. exfalso.
      destruct l; cbn [upd upd_close] in Hc;
        repeat match type of Hc with
        | context [if ?c then _ else _] => destruct c eqn:?
        | context [match ?c with _ => _ end] => destruct c eqn:?
        end; cbn in Hc; congruence.
    - specialize (H eq_refl). destruct H as [Hf [Hc [Hl [Ha [Hm Ht]]]]].
      assert (G : grp_cancelled s = false) by (unfold grp_cancelled; rewrite C, Hf; reflexivity).
      destruct l; cbn [upd upd_close]; rewrite ?G, ?andb_false_r; try (intros _; repeat split; assumption).
      + (* AcceptGet *)
        destruct (_ && _ && _); intros _; unfold quiet; cbn; repeat split; auto.
        apply Forall_set_nth; auto. discriminate.
      + (* AcceptClosed *)
        rewrite (Forall_false_nth _ _ Hl), andb_false_r. intros _; repeat split; assumption.
      + (* SendQ *)
        rewrite Hq. destruct (apc_is _ _); [|intros _; repeat split; assumption].
        destruct (Nat.leb _ _); intros _; unfold quiet; cbn; repeat split; auto.
        apply Forall_set_nth; auto. discriminate.
      + (* ConsTake *)
        rewrite Hc. destruct (queue s); intros _; unfold quiet; cbn; repeat split; auto.
      + (* ConsCtx *) rewrite Hc. intros _; repeat split; assumption.
      + (* ConsNil *) rewrite Hc, Hq. destruct (queue s); intros _; repeat split; assumption.
      + (* CloseCall *)
        destruct (close_called s); intros _; unfold quiet; cbn; repeat split; auto.
      + (* CloseStep *)
        destruct Ht as [Ht|Ht]; rewrite Ht; [intros _; repeat split; auto|].
        cbn [Nat.add]. rewrite Nat.add_0_r, Nat.eqb_refl. cbn. discriminate.
      + (* MainReturn *)
        rewrite Hm. unfold all_done. rewrite Hc, andb_false_r. intros _; repeat split; auto.
  Qed.

  (* ---- what holds once ListenAndServe has returned ---- *)
  Lemma all_done_acc s i q : all_done s = true -> q <> ADone -> apc_is (nth_error (acc s) i) q = false.
  Proof.
    unfold all_done. intros H Hq. apply andb_true_iff in H. destruct H as [H _].
    rewrite forallb_forall in H.
    destruct (nth_error (acc s) i) as [p|] eqn:E; [|reflexivity].
    apply nth_error_In in E. apply H in E. destruct p; try discriminate. destruct q; try reflexivity. congruence.
  Qed.

  Definition returned_ok (s : gst) : Prop :=
    forall r, main s = MReturned r -> r = ErrServerClosed /\ all_done s = true /\ queue s = 0.

  Lemma returned_step s l : safe s -> pre_cancel s -> returned_ok s -> returned_ok (step s l).
  Proof.
    intros [Hq Hp] Hpre H r. unfold gstep. rewrite Hp.
    destruct (main s) as [|r0] eqn:M.
    - (* not returned yet: only MainReturn can return *)
      destruct l; cbn [upd upd_close];
        try (repeat match goal with
             | |- context [if ?c then _ else _] => destruct c eqn:?
             | |- context [match ?c with _ => _ end] => destruct c eqn:?
             end; cbn; rewrite ?M; discriminate).
      destruct (all_done s) eqn:D; [|rewrite M; discriminate].
      cbn. intros Hr. inversion Hr; subst. repeat split; auto.
      unfold serve_result_of. cbn [andb].
      destruct (cancelled s) eqn:C; [reflexivity|].
      exfalso. destruct (Hpre C) as [_ [Hc _]]. unfold all_done in D. rewrite Hc, andb_false_r in D. discriminate.
    - (* already returned: every goroutine has ended, nothing moves the queue *)
      destruct (H r0 M) as [Hr [D Q]].
      assert (Hcons : cons s = CDone).
      { unfold all_done in D. apply andb_true_iff in D. destruct D as [_ D]. destruct (cons s); [discriminate|reflexivity]. }
      destruct l; cbn [upd upd_close];
        rewrite ?(all_done_acc s _ AAccept D), ?(all_done_acc s _ ASend D) by discriminate; cbn [andb];
        rewrite ?Hcons.
      all: try (intros Hm; rewrite M in Hm; inversion Hm; subst; auto).
      all: try (destruct (queue s); intros Hm; rewrite M in Hm; inversion Hm; subst; auto).
      + destruct (close_called s); cbn; [auto|]. rewrite M. intros Hm; inversion Hm; subst; auto.
      + destruct (close_todo s); [auto|].
        repeat match goal with |- context [if ?c then _ else _] => destruct c end;
          cbn; rewrite M; intros Hm; inversion Hm; subst; auto.
  Qed.

  (* ---- Close closes every listener ---- *)
  Definition closing_ok (s : gst) : Prop :=
    (close_called s = false -> close_todo s = 0) /\
    (close_called s = true ->
     close_todo s <= 1 + length (lclosed s) /\
     forall j, j + close_todo s < length (lclosed s) -> nth j (lclosed s) false = true).

  Lemma closing_step s l : safe s -> closing_ok s -> closing_ok (step s l).
  Proof.
    intros [Hq Hp] H. unfold closing_ok in *. unfold gstep. rewrite Hp.
    destruct l; cbn [upd upd_close];
      try (repeat match goal with
           | |- context [if ?c then _ else _] => destruct c eqn:?
           | |- context [match ?c with _ => _ end] => destruct c eqn:?
           end; cbn; exact H).
    - (* CloseCall *)
      destruct (close_called s) eqn:C; [rewrite C; exact H|]. cbn. split; [discriminate|]. intros _. split; [lia|]. intros j Hj. lia.
    - (* CloseStep *)
      destruct (close_todo s) as [|k] eqn:T; [rewrite T; exact H|].
      destruct H as [H0 H1].
      destruct (close_called s) eqn:C; [|specialize (H0 eq_refl); discriminate].
      destruct (H1 eq_refl) as [Hle Hall].
      destruct (Nat.eqb_spec (S k) (1 + length (lclosed s) + 0)) as [E|E].
      + cbn. split; [discriminate|]. intros _. split; [lia|]. intros j Hj. lia.
      + destruct (Nat.ltb_spec 0 (S k)); [|lia]. cbn. rewrite length_set_nth.
        split; [discriminate|]. intros _. split; [lia|]. intros j Hj.
        destruct (Nat.eq_dec j (length (lclosed s) + 0 - S k)) as [->|Hne].
        * apply nth_set_nth_eq. lia.
        * rewrite nth_set_nth_neq by congruence. apply Hall. lia.
  Qed.

  (* ---- all invariants together, for every reachable state ---- *)
  Definition ginv (s : gst) : Prop := safe s /\ wf s /\ pre_cancel s /\ returned_ok s /\ closing_ok s.

  Lemma ginv_step s l : ginv s -> ginv (step s l).
  Proof.
    intros [H1 [H2 [H3 [H4 H5]]]].
    split; [apply safe_step; auto|]. split; [apply wf_step; auto|].
    split; [apply pre_cancel_step; auto|]. split; [apply returned_step; auto|apply closing_step; auto].
  Qed.

  Lemma ginv_init clients : ginv (ginit clients).
  Proof.
    split; [split; reflexivity|]. split; [apply wf_init|].
    split; [|split].
    - intros _. unfold quiet; cbn. repeat split; auto.
      + induction clients; cbn; constructor; auto.
      + induction clients; cbn; constructor; auto. discriminate.
    - intros r. cbn. discriminate.
    - split; cbn; [reflexivity|discriminate].
  Qed.

  Lemma ginv_run ls s : ginv s -> ginv (run s ls).
  Proof. revert s; induction ls as [|l ls IH]; intros s H; cbn; auto. apply IH, ginv_step, H. Qed.

  Lemma cancel_needs_close : forall ls st, (close_called st = false -> cancelled st = false) ->
    close_called (run st ls) = false -> cancelled (run st ls) = false.
  Proof.
    induction ls as [|l ls IH]; intros st H; cbn [grun fold_left]; auto.
    apply IH. unfold gstep. destruct (panicked st); [exact H|].
    destruct l; cbn [upd upd_close];
      repeat match goal with
      | |- context [if ?c then _ else _] => destruct c eqn:?
      | |- context [match ?c with _ => _ end] => destruct c eqn:?
      end; cbn; auto; try discriminate; try (intros; congruence).
  Qed.

  (* When ListenAndServe returns, under every schedule: it returns ErrServerClosed; the
     acceptors and the consumer have ended; the queue is empty; every connection that was
     accepted was either handed to a serving goroutine or closed (none dropped); and once
     Close itself has returned every listener is closed. *)
  Theorem orderly_shutdown clients ls r :
    let s := run (ginit clients) ls in
    main s = MReturned r ->
    r = ErrServerClosed /\ all_done s = true /\ queue s = 0 /\ held s = 0 /\ leaked s = 0 /\
    sum (pending s) + served s + released s = sum clients /\ panicked s = false /\ cancelled s = true /\
    (close_todo s = 0 -> Forall (fun b => b = true) (lclosed s)).
  Proof.
    intros s M.
    destruct (ginv_run ls (ginit clients) (ginv_init clients)) as [[Hq Hp] [Hwf [Hpre [Hret [Hc0 Hc1]]]]].
    fold s in Hq, Hp, Hwf, Hpre, Hret, Hc0, Hc1.
    destruct (Hret r M) as [Hr [D Q]].
    destruct (conservation clients ls) as [Hcons Hl]. fold s in Hcons, Hl.
    assert (Hheld : held s = 0).
    { unfold held. unfold all_done in D. apply andb_true_iff in D. destruct D as [D _].
      apply held_all_done, D. }
    assert (Hcanc : cancelled s = true).
    { destruct (cancelled s) eqn:C; [reflexivity|]. destruct (Hpre C) as [_ [_ [_ [_ [Hm _]]]]]. congruence. }
    repeat split; auto; try lia.
    intros T.
    assert (Hcc : close_called s = true).
    { destruct (close_called s) eqn:C; [reflexivity|]. exfalso.
      pose proof (cancel_needs_close ls (ginit clients) (fun _ => eq_refl)) as G. fold s in G.
      rewrite (G C) in Hcanc. discriminate. }
    destruct (Hc1 Hcc) as [_ Hall]. rewrite T in Hall.
    destruct Hwf as [_ Hlen].
    apply Forall_forall. intros b Hb. apply In_nth with (d := false) in Hb. destruct Hb as [j [Hj <-]].
    apply Hall. lia.
  Qed.

  (* ---- no deadlock: once Close has cancelled, a step that makes progress is always enabled
     until ListenAndServe has returned ---- *)
  Lemma not_all_done_acc l :
    forallb (fun p => match p with ADone => true | _ => false end) l = false ->
    exists i p, nth_error l i = Some p /\ p <> ADone.
  Proof.
    induction l as [|x l IH]; cbn; [discriminate|].
    destruct x; cbn.
    - intros _. exists 0, AAccept. split; [reflexivity|discriminate].
    - intros _. exists 0, ASend. split; [reflexivity|discriminate].
    - intros H. destruct (IH H) as [i [p [Hi Hp]]]. exists (S i), p. auto.
  Qed.

  Theorem progress_after_cancel clients ls :
    let s := run (ginit clients) ls in
    cancelled s = true -> main s = MWait -> exists l, measure (step s l) < measure s.
  Proof.
    intros s C M.
    destruct (ginv_run ls (ginit clients) (ginv_init clients)) as [[Hq Hp] [Hwf _]].
    fold s in Hq, Hp, Hwf.
    assert (G : grp_cancelled s = true) by (unfold grp_cancelled; rewrite C; reflexivity).
    destruct (forallb (fun p => match p with ADone => true | _ => false end) (acc s)) eqn:F.
    - destruct (cons s) eqn:Cs.
      + exists ConsCtx. unfold gstep. rewrite Hp, Cs, G. unfold measure; cbn. rewrite Cs. lia.
      + exists MainReturn. unfold gstep. rewrite Hp, M. unfold all_done. rewrite F, Cs. cbn [andb].
        unfold measure; cbn. rewrite M. lia.
    - destruct (not_all_done_acc _ F) as [i [p [Hi Hne]]].
      destruct p; [| |congruence].
      + exists (AcceptCtx i). unfold gstep. rewrite Hp, Hi, G. cbn [apc_is andb upd].
        unfold measure; cbn. pose proof (sum_map_set_nth aweight (acc s) i ADone AAccept Hi). cbn in *. lia.
      + exists (SendCtx i). unfold gstep. rewrite Hp, Hi, G. cbn [apc_is andb upd].
        unfold measure; cbn. pose proof (sum_map_set_nth aweight (acc s) i ADone ASend Hi). cbn in *. lia.
  Qed.
End Fixed.

(* ---- the tree as found: Close closes the queue and the result is the group's first error ---- *)
Theorem as_found_consumer_panics :
  exists ls, panicked (grun false 4 (ginit [0]) ls) = true.
Proof. exists [CloseCall; CloseStep; CloseStep; CloseStep; ConsNil]. vm_compute. reflexivity. Qed.

Theorem as_found_acceptor_panics :
  exists ls, panicked (grun false 4 (ginit [1]) ls) = true.
Proof. exists [AcceptGet 0; CloseCall; CloseStep; CloseStep; CloseStep; SendQ 0]. vm_compute. reflexivity. Qed.

Theorem as_found_listener_error :
  exists ls, main (grun false 4 (ginit [0]) ls) = MReturned ListenerError.
Proof. exists [CloseCall; CloseStep; CloseStep; AcceptClosed 0; ConsCtx; MainReturn]. vm_compute. reflexivity. Qed.

Theorem as_found_drops_transport :
  exists ls, leaked (grun false 4 (ginit [1]) ls) = 1.
Proof. exists [AcceptGet 0; CloseCall; CloseStep; SendCtx 0]. vm_compute. reflexivity. Qed.

(* the same schedules are harmless on the repaired code *)
Example fixed_same_schedules :
  panicked (grun true 4 (ginit [0]) [CloseCall; CloseStep; CloseStep; CloseStep; ConsNil]) = false /\
  main (grun true 4 (ginit [0]) [CloseCall; CloseStep; CloseStep; AcceptClosed 0; ConsCtx; MainReturn]) = MReturned ErrServerClosed /\
  released (grun true 4 (ginit [1]) [AcceptGet 0; CloseCall; CloseStep; SendCtx 0]) = 1.
Proof. vm_compute. repeat split. Qed.
