(* Model G, part 1 — the goroutine serving one accepted transport
   (server.go handleChannel, with releaseChannel and the deferred finish).

   The handshake outcome is an oracle (Model B decides it); the dispatch loop
   ends because a handler failed, the server's context was cancelled, the peer
   asked to finish, or the peer vanished.  Events are what the property
   observes: the Established callback, a handler run, the finished session
   envelope reaching the client, the connection being closed, the Finished
   callback.  Disabled labels are no-ops, so every list of labels is a
   schedule.  Definitions only. *)
From Coq Require Import List Bool Arith.
Import ListNotations.

Inductive hsres := HsEstablished | HsFailed | HsError.
(* HsFailed: EstablishSession returned nil after FailSession (state failed, transport closed by FailSession);
   HsError: EstablishSession returned an error (nothing closed yet) *)

Inductive hpc :=
| PHandshake        (* in EstablishSession *)
| PRelease          (* not established: releaseChannel, return *)
| PEstCb            (* about to call the Established callback *)
| PListen           (* in mux.ListenServer *)
| PFinish           (* deferred: c.Established() held -> FinishSession *)
| PSkipFinish       (* deferred: c.Established() did not hold -> only releaseChannel *)
| PFinCb            (* about to call the Finished callback *)
| PDone.

Inductive hev :=
| EvEst             (* Established callback *)
| EvRun             (* a handler ran for this session *)
| EvSentFinished    (* the finished session envelope was written to the client *)
| EvClosed          (* the transport was closed / released *)
| EvFin.            (* Finished callback *)

Inductive hlabel :=
| LHandshake (r : hsres)
| LStep                      (* the goroutine performs its next internal step *)
| LEnvelope (ok : bool)      (* an envelope is dispatched; the handler returns nil / an error *)
| LCtxDone                   (* the loop sees the server's context cancelled (only when it is) *)
| LPeerFinishing             (* the peer sent a finishing session envelope: the receiver ends, listen returns nil *)
| LPeerGone.                 (* the peer vanished: the transport is no longer connected *)

Record hst := { h_pc : hpc; h_evs : list hev }.

Definition hinit : hst := {| h_pc := PHandshake; h_evs := [] |}.

Definition hgo (s : hst) (pc : hpc) (evs : list hev) : hst := {| h_pc := pc; h_evs := h_evs s ++ evs |}.

(* [cancelled]: the server's context is cancelled at the moment of the step *)
Definition hstep (cancelled : bool) (s : hst) (l : hlabel) : hst :=
  match h_pc s, l with
  | PHandshake, LHandshake HsEstablished => hgo s PEstCb []
  | PHandshake, LHandshake HsFailed => hgo s PRelease []
  | PHandshake, LHandshake HsError => hgo s PRelease []
  | PRelease, LStep => hgo s PDone [EvClosed]
  | PEstCb, LStep => hgo s PListen [EvEst]
  | PListen, LEnvelope true => hgo s PListen [EvRun]
  | PListen, LEnvelope false => hgo s PFinish [EvRun]
  | PListen, LCtxDone => if cancelled then hgo s PFinish [] else s
  | PListen, LPeerFinishing => hgo s PFinish []
  | PListen, LPeerGone => hgo s PSkipFinish []
  | PFinish, LStep => hgo s PFinCb [EvSentFinished; EvClosed]
  | PSkipFinish, LStep => hgo s PFinCb [EvClosed]
  | PFinCb, LStep => hgo s PDone [EvFin]
  | _, _ => s
  end.

(* a schedule is a list of (context-cancelled-now?, label); cancellation is monotone in real
   runs, but the theorems hold for arbitrary sequences *)
Definition hrun (s : hst) (ls : list (bool * hlabel)) : hst :=
  fold_left (fun s cl => hstep (fst cl) s (snd cl)) ls s.

(* ---- the property's discipline, as a monitor over the observable events ---- *)
Inductive mon := MStart | MEst | MFinishedSent | MClosedEst | MEnd | MBad.
(* MStart: nothing yet; MEst: Established called; MFinishedSent: finished written;
   MClosedEst: closed after having been established; MEnd: nothing more may happen *)

Definition mon_step (m : mon) (e : hev) : mon :=
  match m, e with
  | MStart, EvEst => MEst
  | MStart, EvClosed => MEnd               (* never established: closed, no callbacks *)
  | MEst, EvRun => MEst
  | MEst, EvSentFinished => MFinishedSent
  | MEst, EvClosed => MClosedEst           (* peer already gone: no finished envelope possible *)
  | MFinishedSent, EvClosed => MClosedEst
  | MClosedEst, EvFin => MEnd
  | _, _ => MBad
  end.
Definition mon_run (es : list hev) : mon := fold_left mon_step es MStart.

Definition mon_ok (m : mon) : bool := match m with MBad => false | _ => true end.
(* a complete trace: the goroutine has ended *)
Definition mon_final (m : mon) : bool := match m with MEnd => true | _ => false end.

Definition count_ev (e : hev) (es : list hev) : nat :=
  length (filter (fun x => match x, e with
                           | EvEst, EvEst | EvRun, EvRun | EvSentFinished, EvSentFinished
                           | EvClosed, EvClosed | EvFin, EvFin => true
                           | _, _ => false end) es).
