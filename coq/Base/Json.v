(* JSON value trees.  Objects keep their members in order; numbers are either
   integer literals (already converted to Z by the dumb printer of the
   harness) or opaque non-integer literals. *)
From Coq Require Import List Bool Ascii String ZArith.
Import ListNotations.
From Lime Require Import Base.Str.
Open Scope string_scope.

Inductive json :=
| JNull
| JBool (b : bool)
| JInt (z : Z)
| JFloat (lit : string)
| JStr (s : string)
| JArr (l : list json)
| JObj (kvs : list (string * json)).

(* encoding/json: exact member name first, else ASCII-case-insensitive; objects
   with two members matching one field are outside the model's domain, the
   first match is taken *)
Fixpoint get_exact (k : string) (kvs : list (string * json)) : option json :=
  match kvs with
  | [] => None
  | (k', v) :: t => if String.eqb k' k then Some v else get_exact k t
  end.
Fixpoint get_fold (k : string) (kvs : list (string * json)) : option json :=
  match kvs with
  | [] => None
  | (k', v) :: t => if fold_eqb k' k then Some v else get_fold k t
  end.
Definition get (k : string) (kvs : list (string * json)) : option json := get_fold k kvs.

(* a raw struct as Go emits it: fields in declaration order, omitted when None *)
Definition members (fs : list (string * option json)) : list (string * json) :=
  flat_map (fun kv => match snd kv with Some j => [(fst kv, j)] | None => [] end) fs.

Fixpoint keys_distinct (ks : list string) : bool :=
  match ks with
  | [] => true
  | k :: t => forallb (fun k' => negb (fold_eqb k k')) t && keys_distinct t
  end.

Fixpoint assoc_field (k : string) (fs : list (string * option json)) : option json :=
  match fs with
  | [] => None
  | (k', o) :: t => if fold_eqb k' k then o else assoc_field k t
  end.

Lemma get_members_notin k fs :
  forallb (fun k' => negb (fold_eqb k' k)) (map fst fs) = true -> get k (members fs) = None.
Proof.
  induction fs as [|[k' o] t IH]; cbn; auto. intros H. apply andb_prop in H. destruct H as [H1 H2].
  destruct o as [j|]; cbn.
  - unfold get in *. cbn. apply negb_true_iff in H1. rewrite H1. apply IH, H2.
  - apply IH, H2.
Qed.

Lemma fold_eqb_sym a b : fold_eqb a b = fold_eqb b a.
Proof. unfold fold_eqb. apply String.eqb_sym. Qed.

Lemma fold_eqb_trans a b c : fold_eqb a b = true -> fold_eqb b c = true -> fold_eqb a c = true.
Proof. unfold fold_eqb. rewrite !String.eqb_eq. congruence. Qed.

(* looking a field up in what was emitted gives back the field, provided the
   field names are pairwise distinct up to case *)
Lemma get_members k fs : keys_distinct (map fst fs) = true ->
  get k (members fs) = assoc_field k fs.
Proof.
  induction fs as [|[k' o] t IH]; cbn; auto. intros H. apply andb_prop in H. destruct H as [H1 H2].
  destruct (fold_eqb k' k) eqn:E.
  - destruct o as [j|]; cbn.
    + unfold get. cbn. rewrite E. reflexivity.
    + apply get_members_notin. rewrite forallb_forall in *. intros x Hx. specialize (H1 x Hx).
      apply negb_true_iff in H1. apply negb_true_iff.
      destruct (fold_eqb x k) eqn:E2; auto.
      rewrite fold_eqb_sym in E2. rewrite (fold_eqb_trans _ _ _ E E2) in H1. discriminate.
  - destruct o as [j|]; cbn.
    + unfold get in *. cbn. rewrite E. apply IH, H2.
    + apply IH, H2.
Qed.
