(* Outcomes of Go operations: a value, an error, or a panic.  Panics are
   first-class so that "never panics" is a statement about the model and not
   an artefact of totality. *)
From Coq Require Import List.
Import ListNotations.

Inductive res (A : Type) : Type :=
| Ok (a : A)
| Err
| Panic.
Arguments Ok {A} a.
Arguments Err {A}.
Arguments Panic {A}.

Definition bind {A B} (r : res A) (f : A -> res B) : res B :=
  match r with Ok a => f a | Err => Err | Panic => Panic end.

Definition is_ok {A} (r : res A) : bool := match r with Ok _ => true | _ => false end.
Definition is_panic {A} (r : res A) : bool := match r with Panic => true | _ => false end.

Definition res_eqb {A} (eqb : A -> A -> bool) (x y : res A) : bool :=
  match x, y with
  | Ok a, Ok b => eqb a b
  | Err, Err => true
  | Panic, Panic => true
  | _, _ => false
  end.

(* indices of the elements of [l] for which [f] is false *)
Fixpoint bad_from {A} (f : A -> bool) (i : nat) (l : list A) : list nat :=
  match l with
  | [] => []
  | x :: l' => if f x then bad_from f (S i) l' else i :: bad_from f (S i) l'
  end.
Definition bad_indices {A} (f : A -> bool) (l : list A) : list nat := bad_from f 0 l.
