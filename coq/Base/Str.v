(* Strings as byte sequences; strings.Split as used by lime-go's text forms. *)
From Coq Require Import List Bool Ascii String Arith NArith Lia.
Import ListNotations.
Open Scope string_scope.

Fixpoint has_char (c : ascii) (s : string) : bool :=
  match s with
  | EmptyString => false
  | String a s' => Ascii.eqb a c || has_char c s'
  end.

(* strings.Split(s, c) for a one-byte separator: always at least one element *)
Fixpoint split_on (c : ascii) (s : string) : list string :=
  match s with
  | EmptyString => [EmptyString]
  | String a s' =>
      if Ascii.eqb a c then EmptyString :: split_on c s'
      else match split_on c s' with
           | [] => [String a EmptyString]
           | h :: t => String a h :: t
           end
  end.

Definition nth_str (l : list string) (n : nat) : string := nth n l EmptyString.

(* ASCII lower-casing, for encoding/json's case-insensitive member lookup *)
Definition lower_ascii (a : ascii) : ascii :=
  let n := N_of_ascii a in
  if ((65 <=? n)%N && (n <=? 90)%N)%bool then ascii_of_N (n + 32) else a.
Fixpoint lower (s : string) : string :=
  match s with EmptyString => EmptyString | String a s' => String (lower_ascii a) (lower s') end.
Definition fold_eqb (a b : string) : bool := String.eqb (lower a) (lower b).
Global Arguments fold_eqb : simpl never.

Definition str_empty (s : string) : bool := match s with EmptyString => true | _ => false end.

Lemma split_on_nochar c s : has_char c s = false -> split_on c s = [s].
Proof.
  induction s as [|a s IH]; cbn; auto. intros H. apply orb_false_iff in H. destruct H as [H1 H2].
  rewrite H1, (IH H2). reflexivity.
Qed.

Lemma split_on_app c a b : has_char c a = false ->
  split_on c (a ++ String c b) = a :: split_on c b.
Proof.
  induction a as [|x a IH]; cbn; intros H.
  - rewrite Ascii.eqb_refl. reflexivity.
  - apply orb_false_iff in H. destruct H as [H1 H2]. rewrite H1, (IH H2). reflexivity.
Qed.

Lemma split_on_nonempty c s : split_on c s <> [].
Proof.
  destruct s as [|a s]; cbn; [discriminate|].
  destruct (Ascii.eqb a c); [discriminate|]. destruct (split_on c s); discriminate.
Qed.

(* every piece produced by split_on is free of the separator *)
Lemma split_on_pieces c s : forall p, In p (split_on c s) -> has_char c p = false.
Proof.
  induction s as [|a s IH]; cbn.
  - intros p [<-|[]]. reflexivity.
  - destruct (Ascii.eqb a c) eqn:E.
    + intros p [<-|H]; auto.
    + destruct (split_on c s) as [|h t] eqn:Hs.
      * intros p [<-|[]]. cbn. rewrite E. reflexivity.
      * intros p [<-|H].
        -- cbn. rewrite E. cbn. apply IH. left. reflexivity.
        -- apply IH. right. exact H.
Qed.

Lemma has_char_app c a b : has_char c (a ++ b) = has_char c a || has_char c b.
Proof. induction a as [|x a IH]; cbn; auto. rewrite IH. apply orb_assoc. Qed.

Lemma str_empty_true s : str_empty s = true -> s = "".
Proof. destruct s; cbn; congruence. Qed.

Lemma append_nil_r (s : string) : s ++ "" = s.
Proof. induction s as [|a s IH]; cbn; congruence. Qed.

Lemma append_eq_empty (a b : string) : a ++ b = "" -> a = "" /\ b = "".
Proof. destruct a; cbn; intros H; [auto | discriminate]. Qed.
