From Coq Require Import List Arith Bool Lia.
Import ListNotations.
From Lime Require Import Tcp.Reader.

(* ---- (a) no Receive takes more than the budget it starts with ---- *)
Lemma receive_loop_taken limit sizes : forall plan st taken0 r st' p' taken,
  receive_loop limit sizes st plan taken0 = (r, st', p', taken) ->
  taken0 <= taken /\ taken - taken0 <= rs_budget st /\
  (match r with RGotFrame _ => True | _ => rs_budget st' + (taken - taken0) = rs_budget st end).
Proof.
  induction plan as [|s plan IH]; intros st taken0 r st' p' taken H.
  - cbn [receive_loop] in H.
    destruct (Nat.ltb (rs_next st) (length sizes) && Nat.leb (frame_end sizes (rs_next st)) (rs_read st)); [injection H as <- <- <- <-; lia|].
    destruct (Nat.eqb (rs_budget st) 0) eqn:E; injection H as <- <- <- <-; cbn; try lia.
    apply Nat.eqb_eq in E. lia.
  - cbn [receive_loop] in H.
    destruct (Nat.ltb (rs_next st) (length sizes) && Nat.leb (frame_end sizes (rs_next st)) (rs_read st)); [injection H as <- <- <- <-; lia|].
    destruct (Nat.eqb (rs_budget st) 0) eqn:E; [injection H as <- <- <- <-; cbn; apply Nat.eqb_eq in E; lia|].
    destruct s.
    + apply IH in H. cbn [rs_budget] in H.
      set (d := Nat.min k (Nat.min (rs_budget st) (total sizes - rs_read st))) in *.
      assert (d <= rs_budget st) by (unfold d; lia).
      destruct H as (H1 & H2 & H3). repeat split; try lia. destruct r; auto; lia.
    + apply IH in H. exact H.
    + injection H as <- <- <- <-. cbn. lia.
    + injection H as <- <- <- <-. cbn. lia.
    + injection H as <- <- <- <-. cbn. lia.
Qed.

(* states reachable by receives keep the budget within the limit *)
Definition budget_ok (limit : nat) (st : rstate) : Prop := rs_budget st <= limit.

Lemma receive_loop_budget limit sizes : forall plan st taken0 r st' p' taken,
  budget_ok limit st -> receive_loop limit sizes st plan taken0 = (r, st', p', taken) -> budget_ok limit st'.
Proof.
  unfold budget_ok.
  induction plan as [|s plan IH]; intros st taken0 r st' p' taken Hb H; cbn [receive_loop] in H.
  - destruct (Nat.ltb (rs_next st) (length sizes) && Nat.leb (frame_end sizes (rs_next st)) (rs_read st)); [injection H as <- <- <- <-; cbn; lia|].
    destruct (Nat.eqb (rs_budget st) 0); injection H as <- <- <- <-; cbn; lia.
  - destruct (Nat.ltb (rs_next st) (length sizes) && Nat.leb (frame_end sizes (rs_next st)) (rs_read st)); [injection H as <- <- <- <-; cbn; lia|].
    destruct (Nat.eqb (rs_budget st) 0); [injection H as <- <- <- <-; cbn; lia|].
    destruct s.
    + eapply IH; [|exact H]. cbn. lia.
    + eapply IH; eauto.
    + injection H as <- <- <- <-. cbn. lia.
    + injection H as <- <- <- <-. cbn. lia.
    + injection H as <- <- <- <-. cbn. lia.
Qed.

(* C16 (a): one Receive takes at most [limit] bytes from the connection *)
Theorem receive_bounded limit sizes st plan r st' p' taken :
  budget_ok limit st -> receive limit sizes st plan = (r, st', p', taken) ->
  taken <= limit /\ budget_ok limit st'.
Proof.
  unfold receive. intros Hb H. destruct (rs_sticky st || rs_eof st).
  - injection H as <- <- <- <-. split; [lia|exact Hb].
  - pose proof (receive_loop_taken _ _ _ _ _ _ _ _ _ H) as (H1 & H2 & _).
    split; [unfold budget_ok in Hb; lia|]. eapply receive_loop_budget; eauto.
Qed.

(* ---- (b) read-ahead stays within one budget; hence > 2*limit never completes ---- *)
Definition ahead_ok (limit : nat) (st : rstate) : Prop :=
  rs_consumed st <= rs_read st /\ rs_read st - rs_consumed st <= limit.

Lemma frame_end_mono sizes : forall i, i < length sizes -> Forall (fun s => 1 <= s) sizes ->
  forall j, j < i -> frame_end sizes j < frame_end sizes i.
Proof.
  induction sizes as [|s sizes IH]; intros i Hi Hpos j Hj; [cbn in Hi; lia|].
  inversion Hpos as [|? ? Hs Hrest]; subst.
  destruct i as [|i]; [lia|]. destruct j as [|j]; cbn.
  - lia.
  - cbn in Hi. assert (frame_end sizes j < frame_end sizes i) by (apply IH; auto; lia). lia.
Qed.

(* within one Receive: either no byte was read and the window only shrinks, or
   the leftover is smaller than the last chunk *)
Lemma receive_loop_ahead limit sizes : forall plan st taken0 r st' p' taken,
  rs_next st < length sizes ->
  rs_consumed st <= rs_read st -> rs_budget st <= limit ->
  rs_read st <= frame_end sizes (rs_next st) + limit ->
  rs_consumed st <= frame_end sizes (rs_next st) ->
  receive_loop limit sizes st plan taken0 = (r, st', p', taken) ->
  match r with
  | RGotFrame i => i = rs_next st /\ rs_consumed st' = frame_end sizes i /\ rs_consumed st' <= rs_read st' /\
                   rs_read st' - rs_consumed st' <= limit /\ rs_next st' = S i /\ rs_budget st' = limit /\
                   rs_sticky st' = false /\ rs_eof st' = false /\ rs_read st' = rs_read st + (taken - taken0)
  | RError => rs_sticky st' = true
  | RBlockedR => True
  end.
Proof.
  induction plan as [|s plan IH]; intros st taken0 r st' p' taken Hlt Hc Hb Hw Hce H; cbn [receive_loop] in H;
    (assert (Hltb : Nat.ltb (rs_next st) (length sizes) = true) by (apply Nat.ltb_lt; exact Hlt)); rewrite Hltb in H; cbn [andb] in H.
  - destruct (Nat.leb (frame_end sizes (rs_next st)) (rs_read st)) eqn:E.
    + injection H as <- <- <- <-. cbn. apply Nat.leb_le in E. repeat split; auto; lia.
    + destruct (Nat.eqb (rs_budget st) 0); injection H as <- <- <- <-; cbn; auto.
  - destruct (Nat.leb (frame_end sizes (rs_next st)) (rs_read st)) eqn:E.
    + injection H as <- <- <- <-. cbn. apply Nat.leb_le in E. repeat split; auto; lia.
    + apply Nat.leb_gt in E.
      destruct (Nat.eqb (rs_budget st) 0); [injection H as <- <- <- <-; cbn; auto|].
      destruct s.
      * set (d := Nat.min k (Nat.min (rs_budget st) (total sizes - rs_read st))) in *.
        assert (Hd : d <= rs_budget st) by (unfold d; lia).
        pose proof (receive_loop_taken _ _ _ _ _ _ _ _ _ H) as (Ht & _ & _).
        apply IH in H; cbn [rs_read rs_consumed rs_budget rs_next]; try lia.
        -- destruct r; auto. destruct H as (H1 & H2 & H3 & H4 & H5 & H6 & H7 & H8 & H9).
           repeat split; auto. cbn [rs_read] in H9. lia.
      * eapply IH in H; eauto.
      * injection H as <- <- <- <-. reflexivity.
      * injection H as <- <- <- <-. reflexivity.
      * injection H as <- <- <- <-. reflexivity.
Qed.

(* the state between receives *)
Definition good (limit : nat) (sizes : list nat) (st : rstate) : Prop :=
  rs_sticky st = false /\ rs_eof st = false /\ rs_budget st = limit /\ ahead_ok limit st /\
  rs_consumed st = match rs_next st with O => 0 | S j => frame_end sizes j end.

Lemma good_init limit sizes : good limit sizes (rinit limit).
Proof. unfold good, ahead_ok, rinit. cbn. repeat split; lia. Qed.

Lemma consumed_le_next limit sizes st :
  Forall (fun s => 1 <= s) sizes -> good limit sizes st -> rs_next st < length sizes ->
  rs_consumed st <= frame_end sizes (rs_next st).
Proof.
  intros Hpos (_ & _ & _ & _ & Hc) Hn. rewrite Hc. destruct (rs_next st) as [|j]; [lia|].
  apply Nat.lt_le_incl. apply frame_end_mono; auto.
Qed.

(* when every frame was already returned, a Receive can only fail (sticky) or wait *)
Lemma receive_loop_nomore limit sizes : forall plan st taken0 r st' p' taken,
  length sizes <= rs_next st ->
  receive_loop limit sizes st plan taken0 = (r, st', p', taken) ->
  match r with RGotFrame _ => False | RError => rs_sticky st' = true | RBlockedR => True end.
Proof.
  induction plan as [|s plan IH]; intros st taken0 r st' p' taken Hl H; cbn [receive_loop] in H;
    (assert (Hltb : Nat.ltb (rs_next st) (length sizes) = false) by (apply Nat.ltb_ge; exact Hl)); rewrite Hltb in H; cbn [andb] in H.
  - destruct (Nat.eqb (rs_budget st) 0); injection H as <- <- <- <-; cbn; auto.
  - destruct (Nat.eqb (rs_budget st) 0); [injection H as <- <- <- <-; cbn; auto|].
    destruct s.
    + eapply IH in H; eauto.
    + eapply IH in H; eauto.
    + injection H as <- <- <- <-. reflexivity.
    + injection H as <- <- <- <-. reflexivity.
    + injection H as <- <- <- <-. reflexivity.
Qed.

(* C16 (b) + C12 reader: a successful Receive returns exactly the next frame and leaves a good state *)
Theorem receive_good limit sizes st plan r st' p' taken :
  Forall (fun s => 1 <= s) sizes -> good limit sizes st ->
  receive limit sizes st plan = (r, st', p', taken) ->
  match r with
  | RGotFrame i => i = rs_next st /\ good limit sizes st' /\ rs_next st' = S i
  | RError => rs_sticky st' = true
  | RBlockedR => True
  end.
Proof.
  intros Hpos Hg H. pose proof Hg as (Hs & He & Hb & (Ha1 & Ha2) & Hc).
  unfold receive in H. rewrite Hs, He in H. cbn [orb] in H.
  destruct (le_lt_dec (length sizes) (rs_next st)) as [Hl|Hl].
  - pose proof (receive_loop_nomore _ _ _ _ _ _ _ _ _ Hl H) as Hn. destruct r; auto. contradiction.
  - pose proof (consumed_le_next _ _ _ Hpos Hg Hl) as Hce.
    apply receive_loop_ahead in H; auto; try lia.
    destruct r; auto. destruct H as (H1 & H2 & H3 & H4 & H5 & H6 & H7 & H8 & H9).
    split; auto. split; auto. unfold good, ahead_ok. rewrite H5, H2. repeat split; auto; lia.
Qed.

(* sticky errors: every later Receive fails too, taking nothing *)
Theorem receive_sticky limit sizes st plan :
  rs_sticky st = true -> receive limit sizes st plan = (RError, st, plan, 0).
Proof. intros H. unfold receive. rewrite H. reflexivity. Qed.

(* C16 (b), the bound: from a good state a frame larger than twice the limit is never returned *)
Theorem oversized_never_accepted limit sizes st plan r st' p' taken :
  Forall (fun s => 1 <= s) sizes -> good limit sizes st -> rs_next st < length sizes ->
  2 * limit + 1 < nth (rs_next st) sizes 0 ->
  receive limit sizes st plan = (r, st', p', taken) ->
  forall i, r <> RGotFrame i.
Proof.
  intros Hpos Hg Hl Hbig H i Hr. subst r.
  pose proof Hg as (Hs & He & Hb & (Ha1 & Ha2) & Hc).
  pose proof (consumed_le_next _ _ _ Hpos Hg Hl) as Hce.
  unfold receive in H. rewrite Hs, He in H. cbn [orb] in H.
  pose proof (receive_loop_taken _ _ _ _ _ _ _ _ _ H) as (_ & Ht & _).
  apply receive_loop_ahead in H; auto; try lia.
  destruct H as (H1 & H2 & H3 & H4 & H5 & H6 & H7 & H8 & H9).
  (* frame_end i >= consumed + size_i - 1 *)
  assert (Hfe : rs_consumed st + nth (rs_next st) sizes 0 <= frame_end sizes (rs_next st) + 1).
  { rewrite Hc. clear -Hl Hpos. revert Hl Hpos. generalize (rs_next st) as n. intros n.
    revert sizes. induction n as [|n IH]; intros sizes Hl Hpos.
    - destruct sizes as [|s r]; cbn in *; [lia|]. lia.
    - destruct sizes as [|s r]; cbn [length nth frame_end] in *; [lia|].
      inversion Hpos; subst. destruct n as [|n].
      + destruct r as [|s2 r2]; cbn in *; lia.
      + specialize (IH r ltac:(lia) H2). cbn [frame_end] in IH |- *. lia. }
  subst i. lia.
Qed.

(* ---- (c) a frame within the limit is never rejected ---- *)
Fixpoint plan_benign (p : list rstep) : bool :=
  match p with
  | [] => true
  | RChunk k :: r => Nat.ltb 0 k && plan_benign r
  | RStall :: r => plan_benign r
  | _ => false
  end.

Lemma receive_loop_small limit sizes : forall plan st taken0 r st' p' taken read0,
  plan_benign plan = true ->
  rs_next st < length sizes ->
  read0 <= rs_read st -> rs_budget st + (rs_read st - read0) = limit ->
  frame_end sizes (rs_next st) <= read0 + limit ->
  receive_loop limit sizes st plan taken0 = (r, st', p', taken) -> r <> RError.
Proof.
  induction plan as [|s plan IH]; intros st taken0 r st' p' taken read0 Hp Hl Hr Hbud Hfe H; cbn [receive_loop] in H.
  - assert (Hlb : Nat.ltb (rs_next st) (length sizes) = true) by (apply Nat.ltb_lt; exact Hl). rewrite Hlb in H. cbn [andb] in H.
    destruct (Nat.leb (frame_end sizes (rs_next st)) (rs_read st)) eqn:E; [injection H as <- _ _ _; discriminate|].
    apply Nat.leb_gt in E.
    destruct (Nat.eqb (rs_budget st) 0) eqn:E0; [apply Nat.eqb_eq in E0; lia|].
    injection H as <- _ _ _. discriminate.
  - assert (Hlb : Nat.ltb (rs_next st) (length sizes) = true) by (apply Nat.ltb_lt; exact Hl). rewrite Hlb in H. cbn [andb] in H.
    destruct (Nat.leb (frame_end sizes (rs_next st)) (rs_read st)) eqn:E; [injection H as <- _ _ _; discriminate|].
    apply Nat.leb_gt in E.
    destruct (Nat.eqb (rs_budget st) 0) eqn:E0; [apply Nat.eqb_eq in E0; lia|].
    destruct s; cbn in Hp; try discriminate.
    + apply andb_prop in Hp. destruct Hp as [_ Hp].
      eapply (IH _ _ _ _ _ _ read0) in H; eauto; cbn [rs_read rs_budget rs_next]; try lia.
    + eapply IH in H; eauto.
Qed.

Theorem small_frame_never_rejected limit sizes st plan r st' p' taken :
  Forall (fun s => 1 <= s) sizes -> good limit sizes st -> rs_next st < length sizes ->
  nth (rs_next st) sizes 0 <= limit -> plan_benign plan = true ->
  receive limit sizes st plan = (r, st', p', taken) -> r <> RError.
Proof.
  intros Hpos Hg Hl Hsmall Hp H.
  pose proof Hg as (Hs & He & Hb & (Ha1 & Ha2) & Hc).
  unfold receive in H. rewrite Hs, He in H. cbn [orb] in H.
  (* frame_end i <= consumed + size_i <= read + limit *)
  assert (Hfe : frame_end sizes (rs_next st) <= rs_consumed st + nth (rs_next st) sizes 0).
  { rewrite Hc. clear -Hl Hpos. revert Hl Hpos. generalize (rs_next st) as n. intros n.
    revert sizes. induction n as [|n IH]; intros sizes Hl Hpos.
    - destruct sizes as [|s r]; cbn in *; lia.
    - destruct sizes as [|s r]; cbn [length nth frame_end] in *; [lia|].
      inversion Hpos; subst. destruct n as [|n].
      + destruct r as [|s2 r2]; [cbn in *; lia|]. inversion H2; subst. cbn in *. lia.
      + specialize (IH r ltac:(lia) H2). cbn [frame_end] in IH |- *. lia. }
  eapply (receive_loop_small _ _ _ _ _ _ _ _ _ (rs_read st)) in H; eauto; lia.
Qed.
