From Coq Require Import List Arith Bool Lia.
Import ListNotations.
From Lime Require Import Tcp.Writer.

Section Facts.
  Variable B : Type.
  Notation write_loop := (write_loop B).
  Notation send := (send B).
  Notation sends := (sends B).

  (* the repaired loop: what is on the wire plus what is still to write is the buffer *)
  Lemma write_loop_fixed whole rest oracle e ok o' :
    write_loop true whole rest oracle = (e, ok, o') ->
    exists tail, rest = e ++ tail /\ (ok = true -> tail = []).
  Proof.
    revert rest e ok o'. induction oracle as [|s oracle IH]; intros rest e ok o' H; cbn in H.
    - injection H as <- <- <-. exists []. rewrite app_nil_r. auto.
    - destruct s as [k r|].
      + destruct r.
        * injection H as <- <- <-. exists (skipn k rest). rewrite firstn_skipn. split; auto.
          intros Hl. apply Nat.leb_le in Hl. apply skipn_all2. exact Hl.
        * destruct (write_loop true whole (skipn k rest) oracle) as [[e1 ok1] o1] eqn:E.
          injection H as <- <- <-. destruct (IH _ _ _ _ E) as (tail & Hs & Hok).
          exists tail. rewrite <- app_assoc, <- Hs, firstn_skipn. auto.
        * injection H as <- <- <-. exists (skipn k rest). rewrite firstn_skipn. split; auto. discriminate.
      + injection H as <- <- <-. exists rest. split; auto. discriminate.
  Qed.

  (* C12, writer: a Send puts a prefix of the encoding on the wire, and all of it when it reports success *)
  Theorem send_prefix b oracle e ok o' :
    send true b oracle = (e, ok, o') -> exists tail, b = e ++ tail /\ (ok = true -> e = b).
  Proof.
    intros H. destruct (write_loop_fixed _ _ _ _ _ _ H) as (tail & Hb & Hok).
    exists tail. split; auto. intros Ht. rewrite (Hok Ht), app_nil_r in Hb. auto.
  Qed.

  (* consecutive sends: the wire is the concatenation of the acknowledged encodings,
     followed (after a failed send) by a prefix of the failed one; every send after a failed one fails and
     writes nothing *)
  Theorem sends_wire bs : forall oracle wire oks,
    sends true bs oracle = (wire, oks) ->
    exists acked partial rest,
      wire = concat acked ++ partial /\ bs = acked ++ rest /\
      oks = repeat true (length acked) ++ repeat false (length rest) /\
      match rest with
      | [] => partial = []
      | b :: _ => exists tail, b = partial ++ tail
      end.
  Proof.
    induction bs as [|b bs IH]; intros oracle wire oks H; cbn in H.
    - injection H as <- <-. exists [], [], []. cbn. repeat split; auto.
    - destruct (send true b oracle) as [[e ok] o'] eqn:E.
      destruct (send_prefix _ _ _ _ _ E) as (tail & Hb & Hok).
      destruct ok.
      + destruct (sends true bs o') as [e' oks'] eqn:E'. injection H as <- <-.
        destruct (IH _ _ _ E') as (acked & partial & rest & Hw & Hbs & Hoks & Hrest).
        rewrite (Hok eq_refl) in *.
        exists (b :: acked), partial, rest. cbn. rewrite Hw, <- app_assoc, Hoks. repeat split; auto.
        rewrite Hbs. reflexivity.
      + injection H as <- <-. exists [], e, (b :: bs). cbn. repeat split; auto.
        * f_equal. clear. induction bs as [|x r IH]; cbn; [reflexivity|f_equal; exact IH].
        * exists tail. exact Hb.
  Qed.

  (* as found: a short write followed by a temporary timeout duplicates bytes and the Send still succeeds *)
  Example write_duplicates_as_found :
    Writer.send nat false [1; 2; 3; 4] [WConn 2 WTimeout] = ([1; 2; 1; 2; 3; 4], true, []).
  Proof. reflexivity. Qed.
  Example write_resumes_repaired :
    Writer.send nat true [1; 2; 3; 4] [WConn 2 WTimeout] = ([1; 2; 3; 4], true, []).
  Proof. reflexivity. Qed.
End Facts.
