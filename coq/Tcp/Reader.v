(* Model E, reader: tcpTransport.Receive = json.Decoder over io.LimitedReader
   over ctxConn.Read (tcp_transport.go).  The stream is a sequence of frames
   (encoded envelope + newline) given by their sizes; the decoder's buffer is
   a window [consumed, read) of the stream (buffer management itself is
   encoding/json's, trusted); what is modelled is when a frame completes, the
   read budget N, its re-arming, the sticky error, and which errors clear the
   transport's "connected" flag. *)
From Coq Require Import List Arith Bool Lia.
Import ListNotations.

(* one conn.Read as seen by the limited reader *)
Inductive rstep :=
| RChunk (k : nat)   (* the connection has k bytes ready (k >= 1); the limiter truncates to the budget *)
| RStall             (* temporary timeout: ctxConn.Read retries *)
| RCut               (* the connection fails *)
| REof               (* the connection reports a clean EOF (the peer closed) *)
| RCtxDone.          (* the read context is found expired *)

Record rstate := {
  rs_read : nat;        (* stream offset up to which bytes were taken from the connection *)
  rs_consumed : nat;    (* stream offset up to which the decoder has consumed *)
  rs_budget : nat;      (* io.LimitedReader.N *)
  rs_sticky : bool;     (* json.Decoder's sticky error *)
  rs_eof : bool;        (* tcpTransport.eof: Connected() is false *)
  rs_next : nat         (* index of the next frame *)
}.
Definition rinit (limit : nat) : rstate :=
  {| rs_read := 0; rs_consumed := 0; rs_budget := limit; rs_sticky := false; rs_eof := false; rs_next := 0 |}.

Inductive rres := RGotFrame (i : nat) | RError | RBlockedR.

(* offset at which frame i's value ends (the trailing newline is skipped as
   white space by the next Decode) *)
Fixpoint frame_end (sizes : list nat) (i : nat) : nat :=
  match sizes, i with
  | [], _ => 0
  | s :: _, O => s - 1
  | s :: r, S i' => s + frame_end r i'
  end.
Definition total (sizes : list nat) : nat := fold_right Nat.add 0 sizes.

(* one Receive; returns the bytes taken from the connection by this call *)
Fixpoint receive_loop (limit : nat) (sizes : list nat) (st : rstate) (plan : list rstep) (taken : nat)
  : rres * rstate * list rstep * nat :=
  let i := rs_next st in
  if Nat.ltb i (length sizes) && Nat.leb (frame_end sizes i) (rs_read st) then
    (* the value is complete in the buffer: Decode succeeds and the budget is re-armed *)
    (RGotFrame i, {| rs_read := rs_read st; rs_consumed := frame_end sizes i; rs_budget := limit;
                     rs_sticky := false; rs_eof := false; rs_next := S i |}, plan, taken)
  else if Nat.eqb (rs_budget st) 0 then
    (* the limiter reports EOF in the middle of a value: unexpected EOF, sticky *)
    (RError, {| rs_read := rs_read st; rs_consumed := rs_consumed st; rs_budget := 0; rs_sticky := true;
                rs_eof := false; rs_next := i |}, plan, taken)
  else match plan with
       | [] => (RBlockedR, st, [], taken)
       | RStall :: p => receive_loop limit sizes st p taken
       | RCtxDone :: p =>
           (RError, {| rs_read := rs_read st; rs_consumed := rs_consumed st; rs_budget := rs_budget st; rs_sticky := true;
                       rs_eof := false; rs_next := i |}, p, taken)
       | RCut :: p =>
           (RError, {| rs_read := rs_read st; rs_consumed := rs_consumed st; rs_budget := rs_budget st; rs_sticky := true;
                       rs_eof := false; rs_next := i |}, p, taken)
       | REof :: p =>
           (* a clean EOF with nothing but white space buffered is io.EOF, which clears "connected";
              in the middle of a value it is an unexpected EOF, which does not *)
           (RError, {| rs_read := rs_read st; rs_consumed := rs_consumed st; rs_budget := rs_budget st; rs_sticky := true;
                       rs_eof := match rs_consumed st with
                                 | O => Nat.eqb (rs_read st) 0
                                 | _ => Nat.leb (rs_read st) (rs_consumed st + 1)
                                 end;
                       rs_next := i |}, p, taken)
       | RChunk k :: p =>
           let d := Nat.min k (Nat.min (rs_budget st) (total sizes - rs_read st)) in
           receive_loop limit sizes
             {| rs_read := rs_read st + d; rs_consumed := rs_consumed st; rs_budget := rs_budget st - d;
                rs_sticky := false; rs_eof := false; rs_next := i |} p (taken + d)
       end.

Definition receive (limit : nat) (sizes : list nat) (st : rstate) (plan : list rstep) : rres * rstate * list rstep * nat :=
  if rs_sticky st || rs_eof st then (RError, st, plan, 0)
  else receive_loop limit sizes st plan 0.

(* n successive receives *)
Fixpoint receives (limit : nat) (sizes : list nat) (st : rstate) (plan : list rstep) (n : nat)
  : list (rres * nat) * rstate :=
  match n with
  | O => ([], st)
  | S n' =>
      let '(r, st', plan', taken) := receive limit sizes st plan in
      let (rs, st'') := receives limit sizes st' plan' n' in
      ((r, taken) :: rs, st'')
  end.
