(* Model E, writer: ctxConn.Write (tcp_transport.go) under short writes,
   temporary timeouts, fatal errors and context expiry; one Write call per
   encoded envelope (json.Encoder.Encode). *)
From Coq Require Import List Arith Bool Lia.
Import ListNotations.

Section Writer.
  Variable B : Type.   (* bytes *)

  (* what the connection does with one conn.Write(buf) call *)
  Inductive wres := WOk | WTimeout | WFatal.
  Inductive wstep :=
  | WConn (accept : nat) (r : wres)   (* the connection takes [accept] bytes (at most len buf), then reports r *)
  | WCtxDone.                         (* the write context is found expired at the head of the loop *)

  (* fixed = true: the repaired loop resumes after the bytes already written (D10) *)
  Fixpoint write_loop (fixed : bool) (whole rest : list B) (oracle : list wstep) : list B * bool * list wstep :=
    match oracle with
    | [] => (rest, true, [])                       (* no more faults: the connection takes everything *)
    | WCtxDone :: o' => ([], false, o')
    | WConn k r :: o' =>
        let taken := firstn k rest in
        match r with
        | WOk => (taken, Nat.leb (length rest) k, o')   (* a nil error with a short count cannot happen (io.Writer contract): reported as failure *)
        | WFatal => (taken, false, o')
        | WTimeout =>
            let next := if fixed then skipn k rest else whole in
            let '(e, ok, o'') := write_loop fixed whole next o' in
            (taken ++ e, ok, o'')
        end
    end.

  (* Send of one envelope whose encoding is b *)
  Definition send (fixed : bool) (b : list B) (oracle : list wstep) : list B * bool * list wstep :=
    write_loop fixed b b oracle.

  (* a sequence of sends on one connection; after a failed send the encoder (encoding/json) keeps its error: every
     later send on that transport fails too and writes nothing *)
  Fixpoint sends (fixed : bool) (bs : list (list B)) (oracle : list wstep) : list B * list bool :=
    match bs with
    | [] => ([], [])
    | b :: bs' =>
        let '(e, ok, o') := send fixed b oracle in
        if ok then let (e', oks) := sends fixed bs' o' in (e ++ e', true :: oks)
        else (e, false :: map (fun _ => false) bs')
    end.
End Writer.
